#!/bin/bash
# usage: check.sh <ID> <quick|thorough>   |   check.sh replay <file>   |   check.sh setup
# Rebuilds the harness against /repo's current working tree, then runs the check.
set -u
export GOFLAGS=-mod=mod GOPROXY=off GOSUMDB=off GOTOOLCHAIN=local GOWORK=off
ROOT="$(cd "$(dirname "$0")" && pwd)"
export VERIF_ROOT="$ROOT"
BIN="$ROOT/.work/bin"
mkdir -p "$BIN"
if [ "${1:-}" = replay ] && [ -n "${2:-}" ]; then REPLAY_FILE="$(realpath "$2")"; fi
cd "$ROOT/harness" || exit 2
cp /repo/ociregistry/go.sum go.sum 2>/dev/null
SCHED_IDS=" C16 C08 C19 C10 C11 "
build() {
  go build -tags verif -o "$BIN/vcheck" ./cmd/vcheck || { echo "harness build failed" >&2; exit 2; }
}
# instrumented build: overlay regenerated from /repo's current sources on every run
build_sched() {
  go build -o "$BIN/vrewrite" ./cmd/vrewrite || { echo "vrewrite build failed" >&2; exit 2; }
  "$BIN/vrewrite" -repo /repo/ociregistry -out "$ROOT/.work/overlay" ocimem ociunify ociauth ociclient > "$ROOT/.work/vrewrite.log" || { cat "$ROOT/.work/vrewrite.log" >&2; exit 2; }
  go build -tags verif -overlay "$ROOT/.work/overlay/overlay.json" -o "$BIN/vcheck-sched" ./cmd/vcheck || { echo "instrumented build failed" >&2; exit 2; }
}
build_race() {
  go build -race -tags verif -overlay "$ROOT/.work/overlay/overlay.json" -o "$BIN/vcheck-race" ./cmd/vcheck || { echo "instrumented -race build failed" >&2; exit 2; }
}
case "${1:-}" in
  setup)
    build
    build_sched
    build_race
    exit 0;;
  replay)
    build_sched
    exec "$BIN/vcheck-sched" replay "$REPLAY_FILE";;
  "")
    echo "usage: check.sh <ID> <tier>" >&2; exit 2;;
  *)
    case "$SCHED_IDS" in
      *" $1 "*)
        build_sched
        if [ "$1" = C08 ]; then build_race; fi
        export VERIF_RACE_BIN="$BIN/vcheck-race"
        exec "$BIN/vcheck-sched" "$1" --tier "${2:-quick}";;
    esac
    build
    exec "$BIN/vcheck" "$1" --tier "${2:-quick}";;
esac
