#!/bin/bash
# usage: check.sh <ID> <quick|thorough>   |   check.sh replay <file>   |   check.sh setup
# Rebuilds the harness against /repo's current working tree, then runs the check.
set -u
export GOFLAGS=-mod=mod GOPROXY=off GOSUMDB=off GOTOOLCHAIN=local GOWORK=off
ROOT="$(cd "$(dirname "$0")" && pwd)"
# VERIF_REPO / VERIF_OUT are for trials of seeded changes in a scratch checkout (tools/tryseed.sh);
# the registered commands never set them: they build /repo's working tree and write under /verif.
REPO="${VERIF_REPO:-/repo}"
export VERIF_ROOT="${VERIF_OUT:-$ROOT}"
BIN="$ROOT/.work/bin"
OVERLAY="$ROOT/.work/overlay"
MODFLAG=""
if [ "$REPO" != /repo ]; then
  TAG="$(echo "$REPO" | tr -c 'A-Za-z0-9' _)"
  BIN="$ROOT/.work/alt/$TAG/bin"; OVERLAY="$ROOT/.work/alt/$TAG/overlay"
  mkdir -p "$ROOT/.work/alt/$TAG"
  sed "s#=> /repo/ociregistry#=> $REPO/ociregistry#" "$ROOT/harness/go.mod" > "$ROOT/.work/alt/$TAG/go.mod"
  cp "$REPO/ociregistry/go.sum" "$ROOT/.work/alt/$TAG/go.sum"
  MODFLAG="-modfile=$ROOT/.work/alt/$TAG/go.mod"
fi
mkdir -p "$BIN"
if [ "${1:-}" = replay ] && [ -n "${2:-}" ]; then REPLAY_FILE="$(realpath "$2")"; fi
cd "$ROOT/harness" || exit 2
[ "$REPO" = /repo ] && cp /repo/ociregistry/go.sum go.sum 2>/dev/null
SCHED_IDS=" C16 C08 C19 C10 C11 C14 C12 "
build() {
  go build $MODFLAG -tags verif -o "$BIN/vcheck" ./cmd/vcheck || { echo "harness build failed" >&2; exit 2; }
}
# instrumented build: overlay regenerated from /repo's current sources on every run
build_sched() {
  go build $MODFLAG -o "$BIN/vrewrite" ./cmd/vrewrite || { echo "vrewrite build failed" >&2; exit 2; }
  "$BIN/vrewrite" -repo "$REPO/ociregistry" -out "$OVERLAY" ocimem ociunify ociauth ociclient ocifilter > "$OVERLAY.log" || { cat "$OVERLAY.log" >&2; exit 2; }
  go build $MODFLAG -tags verif -overlay "$OVERLAY/overlay.json" -o "$BIN/vcheck-sched" ./cmd/vcheck || { echo "instrumented build failed" >&2; exit 2; }
}
build_race() {
  go build $MODFLAG -race -tags verif -overlay "$OVERLAY/overlay.json" -o "$BIN/vcheck-race" ./cmd/vcheck || { echo "instrumented -race build failed" >&2; exit 2; }
}
case "${1:-}" in
  setup)
    build
    build_sched
    build_race
    exit 0;;
  replay)
    build_sched
    exec "$BIN/vcheck-sched" replay "$REPLAY_FILE";;
  "")
    echo "usage: check.sh <ID> <tier>" >&2; exit 2;;
  *)
    case "$SCHED_IDS" in
      *" $1 "*)
        build_sched
        if [ "$1" = C08 ]; then build_race; fi
        export VERIF_RACE_BIN="$BIN/vcheck-race"
        exec "$BIN/vcheck-sched" "$1" --tier "${2:-quick}";;
    esac
    build
    exec "$BIN/vcheck" "$1" --tier "${2:-quick}";;
esac
