#!/bin/bash
# usage: check.sh <ID> <quick|thorough>   |   check.sh replay <file>   |   check.sh setup
# Rebuilds the harness against /repo's current working tree, then runs the check.
set -u
export GOFLAGS=-mod=mod GOPROXY=off GOSUMDB=off GOTOOLCHAIN=local GOWORK=off
ROOT="$(cd "$(dirname "$0")" && pwd)"
export VERIF_ROOT="$ROOT"
BIN="$ROOT/.work/bin"
mkdir -p "$BIN"
cd "$ROOT/harness" || exit 2
cp /repo/ociregistry/go.sum go.sum 2>/dev/null
build() {
  go build -tags verif -o "$BIN/vcheck" ./cmd/vcheck || { echo "harness build failed" >&2; exit 2; }
}
case "${1:-}" in
  setup)
    build
    "$ROOT/harness/sched_build.sh" all || exit 2
    exit 0;;
  replay)
    build
    exec "$BIN/vcheck" replay "$2";;
  "")
    echo "usage: check.sh <ID> <tier>" >&2; exit 2;;
  *)
    build
    exec "$BIN/vcheck" "$1" --tier "${2:-quick}";;
esac
