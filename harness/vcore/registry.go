package vcore

import (
	"encoding/json"
	"runtime"
	"sync"
	"sync/atomic"
)

// Prop is one property's check.
type Prop struct {
	ID     string
	Level  string // evidence level
	Engine string
	// Check explores everything for the tier and returns what it covered.
	Check func(r *Run) Coverage
	// Replay re-runs one recorded case (sub-check name + JSON case) and
	// records a violation on r if it still fails.
	Replay func(r *Run, sub string, c json.RawMessage)
}

var Props = map[string]*Prop{}

func Register(p *Prop) { Props[p.ID] = p }

// Workers is the number of parallel in-process workers.
func Workers() int {
	n := runtime.GOMAXPROCS(0)
	if n > 16 {
		n = 16
	}
	return n
}

// ParallelN calls f(i) for i in [0,n) from Workers() goroutines.
func ParallelN(n int, f func(i int)) {
	var next int64 = -1
	var wg sync.WaitGroup
	for w := 0; w < Workers(); w++ {
		wg.Add(1)
		go func() {
			defer wg.Done()
			for {
				i := int(atomic.AddInt64(&next, 1))
				if i >= n {
					return
				}
				f(i)
			}
		}()
	}
	wg.Wait()
}

// ParallelChan feeds items produced by gen to f on Workers() goroutines.
func ParallelChan[T any](gen func(emit func(T)), f func(T)) {
	ch := make(chan T, 1024)
	var wg sync.WaitGroup
	for w := 0; w < Workers(); w++ {
		wg.Add(1)
		go func() {
			defer wg.Done()
			for x := range ch {
				f(x)
			}
		}()
	}
	gen(func(x T) { ch <- x })
	close(ch)
	wg.Wait()
}
