// Package vcore holds what every check shares: the run record, violation
// artefacts, the known-findings file and the evidence writer.
package vcore

import (
	"bufio"
	"encoding/json"
	"fmt"
	"os"
	"path/filepath"
	"regexp"
	"runtime/debug"
	"sort"
	"strconv"
	"strings"
	"sync"
	"time"
)

// Root is the /verif directory; overridable for tests.
var Root = func() string {
	if d := os.Getenv("VERIF_ROOT"); d != "" {
		return d
	}
	return "/verif"
}()

// Violation is one replayable failure.
type Violation struct {
	Property    string          `json:"property"`
	Fingerprint string          `json:"fingerprint"`
	Engine      string          `json:"engine"`
	Sub         string          `json:"sub,omitempty"` // sub-check name used by replay dispatch
	Case        json.RawMessage `json:"case"`
	Expected    string          `json:"expected"`
	Observed    string          `json:"observed"`
	Count       int             `json:"count"` // how many cases hit this fingerprint
}

// Run accumulates the outcome of one check invocation.
type Run struct {
	ID     string
	Tier   string
	Seed   int64
	Level  string
	Engine string
	start  time.Time

	mu         sync.Mutex
	viols      map[string]*Violation
	order      []string
	Counters   map[string]int64
	samples    []any
	sampleKeys map[string]bool
	outcomes   map[string]int64
	Assume     []string
	Notes      map[string]any
	Replaying  bool
}

func NewRun(id, tier, level, engine string) *Run {
	seed, _ := strconv.ParseInt(os.Getenv("VERIF_SEED"), 10, 64)
	return &Run{
		ID: id, Tier: tier, Seed: seed, Level: level, Engine: engine,
		start:      time.Now(),
		viols:      map[string]*Violation{},
		Counters:   map[string]int64{},
		sampleKeys: map[string]bool{},
		outcomes:   map[string]int64{},
		Notes:      map[string]any{},
	}
}

func (r *Run) Thorough() bool { return r.Tier == "thorough" }

// Add increments a named counter.
func (r *Run) Add(name string, n int64) {
	r.mu.Lock()
	r.Counters[name] += n
	r.mu.Unlock()
}

// Outcome records one observed outcome class (vacuity guard: the number of
// distinct outcome classes is reported).
func (r *Run) Outcome(class string) {
	r.mu.Lock()
	r.outcomes[class]++
	r.mu.Unlock()
}

// Sample keeps up to a few written-out cases, at most one per kind.
func (r *Run) Sample(kind string, v any) {
	r.mu.Lock()
	defer r.mu.Unlock()
	if r.sampleKeys[kind] || len(r.samples) >= 8 {
		return
	}
	r.sampleKeys[kind] = true
	r.samples = append(r.samples, map[string]any{"kind": kind, "case": v})
}

// Violate records a violation under a stable fingerprint.
func (r *Run) Violate(sub, fp string, c any, expected, observed string) {
	data, err := json.Marshal(c)
	if err != nil {
		data, _ = json.Marshal(fmt.Sprintf("%+v", c))
	}
	r.mu.Lock()
	defer r.mu.Unlock()
	if v, ok := r.viols[fp]; ok {
		v.Count++
		// keep the shortest case as the representative
		if len(data) < len(v.Case) {
			v.Case, v.Expected, v.Observed = data, expected, observed
		}
		return
	}
	r.viols[fp] = &Violation{Property: r.ID, Fingerprint: fp, Engine: r.Engine, Sub: sub,
		Case: data, Expected: expected, Observed: observed, Count: 1}
	r.order = append(r.order, fp)
}

// Guard runs f and converts a panic into a violation with the given
// fingerprint prefix; it returns true if f panicked.
// HangTimeout bounds every guarded call: library code that never returns (a lock taken twice, a wait
// nobody ends) is reported as a violation instead of stalling the check. Nothing a check does inside one
// guarded call takes more than a fraction of a second; zero disables the watchdog.
var HangTimeout = 180 * time.Second

func (r *Run) Guard(sub, fpPrefix string, c any, f func()) (panicked bool) {
	if HangTimeout <= 0 {
		return r.guard(sub, fpPrefix, c, f)
	}
	done := make(chan bool, 1)
	go func() { done <- r.guard(sub, fpPrefix, c, f) }()
	t := time.NewTimer(HangTimeout)
	defer t.Stop()
	select {
	case p := <-done:
		return p
	case <-t.C:
		r.Violate(sub, fpPrefix+"/does-not-return", c, "the call returns", fmt.Sprintf("still running after %v (abandoned)", HangTimeout))
		return true
	}
}

func (r *Run) guard(sub, fpPrefix string, c any, f func()) (panicked bool) {
	defer func() {
		if e := recover(); e != nil {
			panicked = true
			st := string(debug.Stack())
			r.Violate(sub, fpPrefix+"/panic:"+PanicSite(st), c, "no panic", fmt.Sprintf("panic: %v\n%s", e, trimStack(st)))
		}
	}()
	f()
	return false
}

var siteRe = regexp.MustCompile(`(?m)^\s+/repo/ociregistry/([^\s:]+):(\d+)`)
var funcRe = regexp.MustCompile(`(?m)^cuelabs\.dev/go/oci/ociregistry[^\s(]*?\.([A-Za-z0-9_.()*\[\]]+)\(`)

// PanicSite extracts the innermost repository function from a stack,
// which identifies the panic site stably (function name, not line).
func PanicSite(stack string) string {
	// find first frame inside the repository
	lines := strings.Split(stack, "\n")
	for i := 0; i+1 < len(lines); i++ {
		l := lines[i]
		if strings.HasPrefix(l, "cuelabs.dev/go/oci/ociregistry") {
			name := l
			if j := strings.LastIndex(name, "("); j > 0 {
				name = name[:j]
			}
			name = strings.TrimPrefix(name, "cuelabs.dev/go/oci/ociregistry")
			name = strings.TrimPrefix(name, "/")
			name = regexp.MustCompile(`\[[^\]]*\]`).ReplaceAllString(name, "")
			return name
		}
	}
	return "unknown"
}

func trimStack(st string) string {
	lines := strings.Split(st, "\n")
	if len(lines) > 40 {
		lines = lines[:40]
	}
	return strings.Join(lines, "\n")
}

// Finding is an entry of known_findings.txt.
type Finding struct {
	Kind     string // "finding" or "fixed"
	Property string
	FP       string
	Text     string
}

func LoadFindings() []Finding {
	f, err := os.Open(filepath.Join(Root, "known_findings.txt"))
	if err != nil {
		return nil
	}
	defer f.Close()
	var out []Finding
	sc := bufio.NewScanner(f)
	for sc.Scan() {
		line := strings.TrimSpace(sc.Text())
		if line == "" || strings.HasPrefix(line, "#") {
			continue
		}
		kind, rest, ok := strings.Cut(line, ":")
		if !ok {
			continue
		}
		kind = strings.TrimSpace(kind)
		if kind != "finding" && kind != "fixed" {
			continue
		}
		fd := Finding{Kind: kind}
		fields := strings.Fields(rest)
		var text []string
		for _, fl := range fields {
			switch {
			case strings.HasPrefix(fl, "property=") && fd.Property == "":
				fd.Property = strings.TrimPrefix(fl, "property=")
			case strings.HasPrefix(fl, "fp=") && fd.FP == "":
				fd.FP = strings.TrimPrefix(fl, "fp=")
			default:
				text = append(text, fl)
			}
		}
		fd.Text = strings.Join(text, " ")
		out = append(out, fd)
	}
	return out
}

var unsafeFile = regexp.MustCompile(`[^A-Za-z0-9._-]+`)

// Coverage is what the check measured.
type Coverage struct {
	States      int64
	Transitions int64
	Evaluations int64
	Nontrivial  int64
	TracesImpl  int64
	Rule        string
	Exhaustive  bool
	Extra       map[string]any
	Explanation string
}

// Finish writes evidence, prints verdict lines and returns the exit code.
func (r *Run) Finish(cov Coverage) int {
	wall := time.Since(r.start).Seconds()
	known := map[string]Finding{}
	for _, f := range LoadFindings() {
		if f.Kind == "finding" && f.Property == r.ID {
			known[f.FP] = f
		}
	}
	exit := 0
	nviol := 0
	var knownSeen []string
	sort.Strings(r.order)
	for _, fp := range r.order {
		v := r.viols[fp]
		if f, ok := known[fp]; ok {
			fmt.Printf("KNOWN-FINDING: property=%s fp=%s %s (hit by %d cases)\n", r.ID, fp, f.Text, v.Count)
			knownSeen = append(knownSeen, fp)
			continue
		}
		nviol++
		exit = 1
		if nviol > 25 {
			continue
		}
		dir := filepath.Join(Root, "replay", r.ID)
		os.MkdirAll(dir, 0o755)
		name := unsafeFile.ReplaceAllString(fp, "_")
		if len(name) > 120 {
			name = name[:120]
		}
		path := filepath.Join(dir, name+".json")
		data, _ := json.MarshalIndent(v, "", " ")
		os.WriteFile(path, data, 0o644)
		if lf, err := os.OpenFile(filepath.Join(Root, ".work", "violations.log"), os.O_APPEND|os.O_CREATE|os.O_WRONLY, 0o644); err == nil {
			fmt.Fprintf(lf, "%s %s %s fp=%s expected=%s observed=%s\n", time.Now().Format(time.RFC3339), r.ID, r.Tier, fp, v.Expected, firstLines(v.Observed, 3))
			lf.Close()
		}
		fmt.Printf("VIOLATION property=%s replay=%s\n", r.ID, path)
		fmt.Printf("  fingerprint: %s\n  expected: %s\n  observed: %s\n  cases: %d\n", fp, v.Expected, firstLines(v.Observed, 6), v.Count)
	}
	if nviol > 25 {
		fmt.Printf("... and %d more violation fingerprints (not written out)\n", nviol-25)
	}
	if r.Replaying {
		return exit
	}
	c := map[string]any{}
	for k, v := range cov.Extra {
		c[k] = v
	}
	for k, v := range r.Counters {
		c["n_"+k] = v
	}
	if cov.States > 0 || cov.Transitions > 0 {
		c["states"] = cov.States
		c["transitions"] = cov.Transitions
		c["traces_validated_against_impl"] = cov.TracesImpl
	}
	c["evaluations"] = cov.Evaluations
	c["distinct_nontrivial"] = cov.Nontrivial
	c["rule"] = cov.Rule
	c["exhaustive"] = cov.Exhaustive
	if cov.Explanation != "" {
		c["explanation"] = cov.Explanation
	}
	c["distinct_outcomes"] = len(r.outcomes)
	if len(r.outcomes) <= 40 {
		c["outcome_histogram"] = r.outcomes
	}
	samples := r.samples
	if len(samples) == 0 {
		samples = []any{"(no sample recorded)"}
	}
	c["samples"] = samples
	c["known_findings_observed"] = knownSeen
	for k, v := range r.Notes {
		c[k] = v
	}
	ev := map[string]any{
		"property_id": r.ID,
		"tier":        r.Tier,
		"seed":        r.Seed,
		"level":       r.Level,
		"coverage":    c,
		"assumptions": r.Assume,
		"wall_s":      wall,
		"violations":  nviol,
	}
	if r.Assume == nil {
		ev["assumptions"] = []string{}
	}
	data, _ := json.MarshalIndent(ev, "", " ")
	os.MkdirAll(filepath.Join(Root, "evidence"), 0o755)
	if err := os.WriteFile(filepath.Join(Root, "evidence", r.ID+".json"), data, 0o644); err != nil {
		fmt.Fprintln(os.Stderr, "cannot write evidence:", err)
		return 2
	}
	fmt.Printf("%s %s: evaluations=%d states=%d transitions=%d nontrivial=%d outcomes=%d violations=%d known=%d wall=%.1fs exhaustive=%v\n",
		r.ID, r.Tier, cov.Evaluations, cov.States, cov.Transitions, cov.Nontrivial, len(r.outcomes), nviol, len(knownSeen), wall, cov.Exhaustive)
	return exit
}

func firstLines(s string, n int) string {
	lines := strings.Split(s, "\n")
	if len(lines) > n {
		lines = append(lines[:n], "…")
	}
	return strings.Join(lines, "\n    ")
}

// Violations returns the recorded violations (for self-tests/replay).
func (r *Run) Violations() []*Violation {
	r.mu.Lock()
	defer r.mu.Unlock()
	var out []*Violation
	for _, fp := range r.order {
		out = append(out, r.viols[fp])
	}
	return out
}
