// Package vstate holds the explicit-state engine (E2): canonical reflective
// dumps of live objects and breadth-first search over operation histories.
package vstate

import (
	"fmt"
	"reflect"
	"regexp"
	"runtime"
	"sort"
	"strings"
	"sync"
	"unsafe"
)

// Dumper writes a canonical text form of an object graph: unexported fields
// included, map entries sorted, pointers numbered in visit order, functions,
// channels and synchronisation primitives skipped. Two graphs with equal
// dumps are identical up to addresses (and up to renamed opaque IDs).
type Dumper struct {
	// SkipFields names struct fields that are left out wherever they occur (instance counters, statistics).
	SkipFields map[string]bool
	sb         strings.Builder
	ptrs       map[unsafe.Pointer]int
	names      map[string]string
	// SkipTypes lists type-name prefixes (pkgpath.Name) that are not dumped.
	SkipTypes []string
	// RenameIDs renames strings that look like random upload IDs (64 hex
	// characters) to ID<n> in order of first appearance.
	RenameIDs bool
	// AutoIDs names every 64-hex string that is not a sha256 digest in order of
	// first appearance (roots must be added in a deterministic order).
	AutoIDs bool
	blank   bool // shape mode: every ID-like string is shown as ID?
}

func NewDumper() *Dumper {
	return &Dumper{ptrs: map[unsafe.Pointer]int{}, names: map[string]string{}, RenameIDs: true}
}

var hexID = regexp.MustCompile(`[0-9a-f]{64}`)

func (d *Dumper) str(s string) string {
	if !d.RenameIDs || len(s) < 64 {
		return s
	}
	idx := hexID.FindAllStringIndex(s, -1)
	if idx == nil {
		return s
	}
	var sb strings.Builder
	last := 0
	for _, m := range idx {
		sb.WriteString(s[last:m[0]])
		last = m[1]
		tok := s[m[0]:m[1]]
		// digests are content-derived: keep them
		if m[0] >= 7 && s[m[0]-7:m[0]] == "sha256:" {
			sb.WriteString(tok)
			continue
		}
		if d.blank {
			sb.WriteString("ID?")
			continue
		}
		n, ok := d.names[tok]
		if !ok && d.AutoIDs {
			n = fmt.Sprintf("ID%d", len(d.names)+1)
			d.names[tok] = n
			ok = true
		}
		if ok {
			sb.WriteString(n)
		} else {
			sb.WriteString(tok)
		}
	}
	sb.WriteString(s[last:])
	return sb.String()
}

// NameID registers an opaque random string to be shown as ID<n>.
func (d *Dumper) NameID(id string) {
	if _, ok := d.names[id]; !ok && hexID.MatchString(id) && len(id) == 64 {
		d.names[id] = fmt.Sprintf("ID%d", len(d.names)+1)
	}
}

func (d *Dumper) String() string { return d.sb.String() }

// Add dumps one labelled root.
func (d *Dumper) Add(label string, v any) {
	d.sb.WriteString(label)
	d.sb.WriteByte('=')
	d.value(reflect.ValueOf(v), 0)
	d.sb.WriteByte('\n')
}

func (d *Dumper) skip(t reflect.Type) bool {
	name := t.PkgPath() + "." + t.Name()
	switch {
	case strings.HasPrefix(name, "sync."), strings.HasPrefix(name, "sync/atomic."),
		strings.HasPrefix(name, "context."), strings.HasPrefix(name, "net/http."),
		strings.HasPrefix(name, "time.Timer"), strings.HasPrefix(name, "log."):
		return true
	}
	for _, p := range d.SkipTypes {
		if strings.HasPrefix(name, p) {
			return true
		}
	}
	return false
}

// loadable dumps sync.Map and sync/atomic values through their methods; false if v is not one of them.
func (d *Dumper) loadable(v reflect.Value, depth int) bool {
	if !v.CanAddr() {
		cp := reflect.New(v.Type()).Elem()
		cp.Set(v)
		v = cp
	}
	pv := v.Addr()
	if !pv.CanInterface() {
		pv = reflect.NewAt(v.Type(), unsafe.Pointer(v.UnsafeAddr()))
	}
	if m, ok := pv.Interface().(*sync.Map); ok {
		type ent struct{ k, v string }
		var ents []ent
		m.Range(func(k, val any) bool {
			kd := &Dumper{ptrs: d.ptrs, names: d.names, SkipTypes: d.SkipTypes, SkipFields: d.SkipFields, RenameIDs: d.RenameIDs}
			kd.value(reflect.ValueOf(k), depth+1)
			vd := &Dumper{ptrs: d.ptrs, names: d.names, SkipTypes: d.SkipTypes, SkipFields: d.SkipFields, RenameIDs: d.RenameIDs}
			vd.value(reflect.ValueOf(val), depth+1)
			ents = append(ents, ent{kd.sb.String(), vd.sb.String()})
			return true
		})
		sort.Slice(ents, func(i, j int) bool { return ents[i].k < ents[j].k })
		d.sb.WriteString("syncmap{")
		for i, e := range ents {
			if i > 0 {
				d.sb.WriteByte(',')
			}
			d.sb.WriteString(e.k + ":" + e.v)
		}
		d.sb.WriteByte('}')
		return true
	}
	load := pv.MethodByName("Load")
	if !load.IsValid() || load.Type().NumIn() != 0 || load.Type().NumOut() != 1 {
		return false
	}
	d.sb.WriteString("atomic(")
	d.value(load.Call(nil)[0], depth+1)
	d.sb.WriteByte(')')
	return true
}

func (d *Dumper) value(v reflect.Value, depth int) {
	if !v.IsValid() {
		d.sb.WriteString("nil")
		return
	}
	if depth > 40 {
		d.sb.WriteString("<deep>")
		return
	}
	t := v.Type()
	if t.PkgPath() == "sync" && t.Name() == "Map" || t.PkgPath() == "sync/atomic" {
		// containers whose contents are state (a cache in a sync.Map, a value behind an atomic pointer):
		// read them through their own Load / Range instead of treating them as opaque
		if d.loadable(v, depth) {
			return
		}
	}
	if d.skip(t) {
		d.sb.WriteString("_")
		return
	}
	switch v.Kind() {
	case reflect.Bool:
		fmt.Fprintf(&d.sb, "%v", v.Bool())
	case reflect.Int, reflect.Int8, reflect.Int16, reflect.Int32, reflect.Int64:
		fmt.Fprintf(&d.sb, "%d", v.Int())
	case reflect.Uint, reflect.Uint8, reflect.Uint16, reflect.Uint32, reflect.Uint64, reflect.Uintptr:
		fmt.Fprintf(&d.sb, "%d", v.Uint())
	case reflect.Float32, reflect.Float64:
		fmt.Fprintf(&d.sb, "%g", v.Float())
	case reflect.String:
		fmt.Fprintf(&d.sb, "%q", d.str(v.String()))
	case reflect.Func:
		// a function stored as data (map/slice/interface value; function-typed struct fields are
		// skipped): its code identity is part of the state, or states that differ only in which
		// closure was memoised would be merged. Captured variables remain invisible.
		if v.IsNil() {
			d.sb.WriteString("nil")
		} else if f := runtime.FuncForPC(v.Pointer()); f != nil {
			d.sb.WriteString("func:" + f.Name())
		} else {
			d.sb.WriteString("func:?")
		}
	case reflect.Chan, reflect.UnsafePointer:
		if v.IsNil() {
			d.sb.WriteString("nil")
		} else {
			d.sb.WriteString("_")
		}
	case reflect.Ptr:
		if v.IsNil() {
			d.sb.WriteString("nil")
			return
		}
		p := unsafe.Pointer(v.Pointer())
		if n, ok := d.ptrs[p]; ok {
			fmt.Fprintf(&d.sb, "#%d", n)
			return
		}
		n := len(d.ptrs) + 1
		d.ptrs[p] = n
		fmt.Fprintf(&d.sb, "&%d", n)
		d.value(v.Elem(), depth+1)
	case reflect.Interface:
		if v.IsNil() {
			d.sb.WriteString("nil")
			return
		}
		e := v.Elem()
		d.sb.WriteString("(" + e.Type().String() + ")")
		d.value(e, depth+1)
	case reflect.Slice:
		if v.IsNil() {
			d.sb.WriteString("nil")
			return
		}
		fallthrough
	case reflect.Array:
		if t.Elem().Kind() == reflect.Uint8 {
			b := make([]byte, v.Len())
			for i := range b {
				b[i] = byte(v.Index(i).Uint())
			}
			fmt.Fprintf(&d.sb, "%q", d.str(string(b)))
			return
		}
		d.sb.WriteByte('[')
		for i := 0; i < v.Len(); i++ {
			if i > 0 {
				d.sb.WriteByte(',')
			}
			d.value(v.Index(i), depth+1)
		}
		d.sb.WriteByte(']')
	case reflect.Map:
		if v.IsNil() {
			d.sb.WriteString("nil")
			return
		}
		type ent struct{ k, v string }
		var ents []ent
		if d.AutoIDs && t.Key().Kind() == reflect.String {
			// Random IDs used as map keys: name the still unnamed ones in the order of the
			// shape of their values (IDs blanked), so that naming does not depend on the
			// random key order. Entries with equal shapes are interchangeable.
			type pend struct{ key, shape string }
			var ps []pend
			it0 := v.MapRange()
			for it0.Next() {
				k := it0.Key().String()
				if len(k) == 64 && hexID.MatchString(k) {
					if _, ok := d.names[k]; !ok {
						sd := &Dumper{ptrs: map[unsafe.Pointer]int{}, names: map[string]string{}, SkipTypes: d.SkipTypes, SkipFields: d.SkipFields, RenameIDs: true, blank: true}
						sd.value(it0.Value(), depth+1)
						ps = append(ps, pend{k, sd.sb.String()})
					}
				}
			}
			sort.Slice(ps, func(i, j int) bool { return ps[i].shape < ps[j].shape })
			for _, p := range ps {
				d.names[p.key] = fmt.Sprintf("ID%d", len(d.names)+1)
			}
		}
		it := v.MapRange()
		for it.Next() {
			kd := &Dumper{ptrs: d.ptrs, names: d.names, SkipTypes: d.SkipTypes, SkipFields: d.SkipFields, RenameIDs: d.RenameIDs}
			kd.value(it.Key(), depth+1)
			ents = append(ents, ent{k: kd.sb.String()})
			_ = d.AutoIDs // map keys are never auto-named: their order would depend on the random value
		}
		// Values are dumped after sorting keys so that pointer numbering
		// follows the canonical key order.
		sort.Slice(ents, func(i, j int) bool { return ents[i].k < ents[j].k })
		vals := map[string]reflect.Value{}
		it = v.MapRange()
		for it.Next() {
			kd := &Dumper{ptrs: d.ptrs, names: d.names, SkipTypes: d.SkipTypes, SkipFields: d.SkipFields, RenameIDs: d.RenameIDs}
			kd.value(it.Key(), depth+1)
			vals[kd.sb.String()] = it.Value()
		}
		d.sb.WriteString("map{")
		for i, e := range ents {
			if i > 0 {
				d.sb.WriteByte(',')
			}
			d.sb.WriteString(e.k)
			d.sb.WriteByte(':')
			d.value(vals[e.k], depth+1)
		}
		d.sb.WriteByte('}')
	case reflect.Struct:
		d.sb.WriteString(t.Name())
		d.sb.WriteByte('{')
		for i := 0; i < v.NumField(); i++ {
			f := v.Field(i)
			ft := t.Field(i)
			if d.SkipFields[ft.Name] {
				continue
			}
			stateful := ft.Type.PkgPath() == "sync" && ft.Type.Name() == "Map" || ft.Type.PkgPath() == "sync/atomic"
			if !stateful && (d.skip(ft.Type) || ft.Type.Kind() == reflect.Func || ft.Type.Kind() == reflect.Chan) {
				continue
			}
			if !f.CanInterface() {
				// unexported: make it readable
				if f.CanAddr() {
					f = reflect.NewAt(f.Type(), unsafe.Pointer(f.UnsafeAddr())).Elem()
				} else {
					// copy the struct to addressable memory
					cp := reflect.New(t).Elem()
					cp.Set(v)
					f = cp.Field(i)
					f = reflect.NewAt(f.Type(), unsafe.Pointer(f.UnsafeAddr())).Elem()
				}
			}
			d.sb.WriteString(ft.Name)
			d.sb.WriteByte(':')
			d.value(f, depth+1)
			d.sb.WriteByte(';')
		}
		d.sb.WriteByte('}')
	default:
		fmt.Fprintf(&d.sb, "?%s", v.Kind())
	}
}
