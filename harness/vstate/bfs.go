package vstate

import (
	"crypto/sha256"
	"sync"
	"sync/atomic"
	"time"

	"verif/vcore"
)

// System is a fresh instance of the real stack under test plus its oracle.
// A state is the history that reaches it: successors are computed by building
// a fresh System, replaying the history and applying one more operation.
type System[O any] interface {
	// Enabled lists the operations enabled in the current state, simplest first.
	Enabled() []O
	// Apply executes op on the real code. With check set, the oracles run
	// (transition result vs model, full read sweep, invariants) and record
	// violations; tainted reports that this state must not be expanded.
	Apply(op O, check bool) (tainted bool)
	// Key is the canonical form of the current state.
	Key() string
}

type Spec[O any] struct {
	New       func() System[O]
	MaxDepth  int
	MaxStates int64
	Deadline  time.Duration
	Seeds     [][]O // non-initial start histories (each is replayed without checks)
}

type Stats[O any] struct {
	States      int64
	Transitions int64
	Depth       int // last fully completed depth
	Fixpoint    bool
	CapHit      string
	PerDepth    []int64
	Samples     [][]O
}

type seenSet struct {
	shards [64]struct {
		mu sync.Mutex
		m  map[[16]byte]struct{}
	}
}

func newSeen() *seenSet {
	s := &seenSet{}
	for i := range s.shards {
		s.shards[i].m = map[[16]byte]struct{}{}
	}
	return s
}

func (s *seenSet) add(key string) bool {
	h := sha256.Sum256([]byte(key))
	var k [16]byte
	copy(k[:], h[:16])
	sh := &s.shards[h[16]%64]
	sh.mu.Lock()
	defer sh.mu.Unlock()
	if _, ok := sh.m[k]; ok {
		return false
	}
	sh.m[k] = struct{}{}
	return true
}

// BFS explores all histories up to MaxDepth, merging states with equal keys.
func BFS[O any](spec Spec[O]) Stats[O] {
	start := time.Now()
	var st Stats[O]
	seen := newSeen()
	build := func(h []O) System[O] {
		sys := spec.New()
		for _, op := range h {
			sys.Apply(op, false)
		}
		return sys
	}
	var frontier [][]O
	roots := append([][]O{nil}, spec.Seeds...)
	for _, h := range roots {
		sys := build(h)
		if seen.add(sys.Key()) {
			frontier = append(frontier, h)
			st.States++
		}
	}
	st.PerDepth = append(st.PerDepth, st.States)
	var capHit atomic.Value
	for depth := 1; depth <= spec.MaxDepth && len(frontier) > 0; depth++ {
		var mu sync.Mutex
		var next [][]O
		var trans, states int64
		vcore.ParallelN(len(frontier), func(i int) {
			if capHit.Load() != nil {
				return
			}
			if spec.Deadline > 0 && time.Since(start) > spec.Deadline {
				capHit.Store("deadline")
				return
			}
			if spec.MaxStates > 0 && atomic.LoadInt64(&st.States)+atomic.LoadInt64(&states) > spec.MaxStates {
				capHit.Store("max-states")
				return
			}
			h := frontier[i]
			base := build(h)
			ops := base.Enabled()
			var local [][]O
			for j, op := range ops {
				sys := base
				if j > 0 {
					sys = build(h)
				}
				if ds, ok := any(sys).(interface{ SetDepth(int) }); ok {
					ds.SetDepth(depth) // depth of the state this transition leads to (seeds count as depth 0)
				}
				tainted := sys.Apply(op, true)
				atomic.AddInt64(&trans, 1)
				if tainted {
					continue
				}
				key := ""
				if pk, ok := any(sys).(interface{ PreSweepKey() string }); ok {
					key = pk.PreSweepKey() // the state as a replay of the history rebuilds it (see regSys.PreSweepKey)
				}
				if key == "" {
					key = sys.Key()
				}
				if seen.add(key) {
					nh := make([]O, len(h)+1)
					copy(nh, h)
					nh[len(h)] = op
					local = append(local, nh)
					atomic.AddInt64(&states, 1)
				}
			}
			if len(local) > 0 {
				mu.Lock()
				next = append(next, local...)
				mu.Unlock()
			}
		})
		st.Transitions += trans
		st.States += states
		st.PerDepth = append(st.PerDepth, states)
		if c := capHit.Load(); c != nil {
			st.CapHit = c.(string)
			break
		}
		st.Depth = depth
		if len(next) == 0 {
			st.Fixpoint = true
		}
		if len(st.Samples) < 3 && len(next) > 0 {
			st.Samples = append(st.Samples, next[len(next)/2])
		}
		frontier = next
	}
	return st
}
