// Package vsync holds the shims that rewritten code under test imports in
// place of "sync" and in place of native channel / go / select statements.
// With no controlled execution in progress every operation is the native one.
package vsync

import (
	"reflect"
	"sync"

	"verif/vsched"
)

type (
	WaitGroup = sync.WaitGroup
	Locker    = sync.Locker
	Map       = sync.Map
	Pool      = sync.Pool
	Cond      = sync.Cond
)

func OnceFunc(f func()) func()                                 { return sync.OnceFunc(f) }
func OnceValue[T any](f func() T) func() T                     { return sync.OnceValue(f) }
func OnceValues[T1, T2 any](f func() (T1, T2)) func() (T1, T2) { return sync.OnceValues(f) }

// Mutex: the scheduler decides when Lock may proceed; the real mutex is still
// taken afterwards so that the race detector sees the program's own edges.
type Mutex struct {
	mu sync.Mutex
}

func (m *Mutex) Lock() {
	if s := vsched.Active(); s != nil {
		s.Lock(ptrOf(m))
	}
	m.mu.Lock()
}

func (m *Mutex) Unlock() {
	m.mu.Unlock()
	if s := vsched.Active(); s != nil {
		s.Unlock(ptrOf(m))
	}
}

func (m *Mutex) TryLock() bool { return m.mu.TryLock() }

type RWMutex struct {
	mu sync.RWMutex
}

func (m *RWMutex) Lock() {
	if s := vsched.Active(); s != nil {
		s.Lock(ptrOf(m))
	}
	m.mu.Lock()
}
func (m *RWMutex) Unlock() {
	m.mu.Unlock()
	if s := vsched.Active(); s != nil {
		s.Unlock(ptrOf(m))
	}
}
func (m *RWMutex) RLock() {
	if s := vsched.Active(); s != nil {
		s.RLock(ptrOf(m))
	}
	m.mu.RLock()
}
func (m *RWMutex) RUnlock() {
	m.mu.RUnlock()
	if s := vsched.Active(); s != nil {
		s.RUnlock(ptrOf(m))
	}
}

// Once: equivalent to sync.Once (later callers wait for the first to finish).
type Once struct {
	m    Mutex
	done bool
}

func (o *Once) Do(f func()) {
	o.m.Lock()
	defer o.m.Unlock()
	if !o.done {
		defer func() { o.done = true }()
		f()
	}
}

func ptrOf[T any](p *T) uintptr { return reflect.ValueOf(p).Pointer() }

func chanPtr(c any) uintptr { return reflect.ValueOf(c).Pointer() }

// Make registers a channel created by rewritten code.
func Make[C any](c C) C {
	if s := vsched.Active(); s != nil {
		v := reflect.ValueOf(c)
		s.RegisterChan(v.Pointer(), v.Cap())
	}
	return c
}

// Go replaces a go statement.
func Go(f func()) {
	if s := vsched.Active(); s != nil {
		s.Go("spawned", f)
		return
	}
	go f()
}

func Send[T any](c chan<- T, v T) {
	if s := vsched.Active(); s != nil {
		s.Send(chanPtr(c), v)
		raceRelease(chanPtr(c))
		return
	}
	c <- v
}

func pollClosed[T any](c <-chan T) func() bool {
	return func() bool {
		select {
		case _, ok := <-c:
			if ok {
				panic("vsync: value received from a foreign channel while polling")
			}
			return true
		default:
			return false
		}
	}
}

func Recv[T any](c <-chan T) T {
	v, _ := Recv2(c)
	return v
}

func Recv2[T any](c <-chan T) (T, bool) {
	if s := vsched.Active(); s != nil {
		v, ok := s.Recv(chanPtr(c), pollClosed(c))
		raceAcquire(chanPtr(c))
		var zero T
		if !ok || v == nil {
			return zero, ok
		}
		return v.(T), ok
	}
	v, ok := <-c
	return v, ok
}

func Close[T any](c chan T) {
	if s := vsched.Active(); s != nil {
		raceRelease(chanPtr(c))
		s.Close(chanPtr(c))
		return
	}
	close(c)
}

// SelectCase is one case of a rewritten select statement.
type SelectCase struct {
	c    vsched.Case
	send func() // native fallback pieces
	rc   reflect.SelectCase
}

func SendCase[T any](c chan<- T, v T) SelectCase {
	return SelectCase{c: vsched.Case{Dir: 1, Ch: chanPtr(c), Val: v},
		rc: reflect.SelectCase{Dir: reflect.SelectSend, Chan: reflect.ValueOf(c), Send: reflect.ValueOf(v)}}
}

func RecvCase[T any](c <-chan T) SelectCase {
	return SelectCase{c: vsched.Case{Dir: 0, Ch: chanPtr(c), Foreign: pollClosed(c)},
		rc: reflect.SelectCase{Dir: reflect.SelectRecv, Chan: reflect.ValueOf(c)}}
}

func DefaultCase() SelectCase {
	return SelectCase{c: vsched.Case{Dir: 2}, rc: reflect.SelectCase{Dir: reflect.SelectDefault}}
}

// Select replaces a select statement; it returns the index of the chosen
// case and, for a receive, the value and ok flag.
func Select(cases ...SelectCase) (int, any, bool) {
	if s := vsched.Active(); s != nil {
		cs := make([]vsched.Case, len(cases))
		for i := range cases {
			cs[i] = cases[i].c
		}
		i, v, ok := s.Select(cs)
		if cases[i].c.Dir == 1 {
			raceRelease(cases[i].c.Ch)
		} else if cases[i].c.Dir == 0 {
			raceAcquire(cases[i].c.Ch)
		}
		return i, v, ok
	}
	rcs := make([]reflect.SelectCase, len(cases))
	for i := range cases {
		rcs[i] = cases[i].rc
	}
	i, v, ok := reflect.Select(rcs)
	if cases[i].rc.Dir == reflect.SelectRecv && v.IsValid() {
		return i, v.Interface(), ok
	}
	return i, nil, ok
}

// As converts the value received by Select to the element type of c.
func As[T any](c <-chan T, v any) T {
	if v == nil {
		var zero T
		return zero
	}
	return v.(T)
}

// Yield is an explicit scheduling point for harness-side fakes.
func Yield() {
	if s := vsched.Active(); s != nil {
		s.Yield()
	}
}
