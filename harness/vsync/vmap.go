package vsync

import (
	"fmt"
	"reflect"
	"sort"
)

// Choose, when non-nil, owns nondeterministic choices that are not thread
// scheduling (map iteration order): it returns an index in [0, n).
var Choose func(n int, what string) int

// MapIterator replaces `for k, v := range m` in rewritten code. The Go
// specification leaves the order unspecified, does not produce entries
// removed before they are reached, and may or may not produce entries
// created during the iteration. With Choose set, every such behaviour is a
// choice owned by the explorer; otherwise iteration is in sorted key order.
type MapIterator[K comparable, V any] struct {
	m       map[K]V
	initial map[K]bool
	done    map[K]bool
	key     K
	val     V
	stopped bool
}

func MapIter[K comparable, V any](m map[K]V) *MapIterator[K, V] {
	it := &MapIterator[K, V]{m: m, initial: map[K]bool{}, done: map[K]bool{}}
	for k := range m {
		it.initial[k] = true
	}
	return it
}

func (it *MapIterator[K, V]) Next() bool {
	if it.stopped {
		return false
	}
	var initialLeft, insertedLeft []K
	for k := range it.m {
		if it.done[k] {
			continue
		}
		if it.initial[k] {
			initialLeft = append(initialLeft, k)
		} else {
			insertedLeft = append(insertedLeft, k)
		}
	}
	less := func(ks []K) func(i, j int) bool {
		return func(i, j int) bool { return fmt.Sprint(ks[i]) < fmt.Sprint(ks[j]) }
	}
	sort.Slice(initialLeft, less(initialLeft))
	sort.Slice(insertedLeft, less(insertedLeft))
	cands := append(initialLeft, insertedLeft...)
	if len(cands) == 0 {
		return false
	}
	pick := 0
	if Choose != nil {
		n := len(cands)
		if len(initialLeft) == 0 {
			n++ // only entries created during the iteration remain: they may also never be produced
		}
		pick = Choose(n, "map-iteration")
		if pick >= len(cands) {
			it.stopped = true
			return false
		}
	} else if len(initialLeft) == 0 {
		return false // free mode: entries created during the iteration are not produced
	}
	k := cands[pick]
	it.done[k] = true
	it.key, it.val = k, it.m[k]
	return true
}

func (it *MapIterator[K, V]) Key() K { return it.key }
func (it *MapIterator[K, V]) Val() V { return it.val }

var _ = reflect.TypeOf
