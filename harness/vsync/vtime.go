package vsync

import (
	"sync"
	"time"
)

// Virtual clock: rewritten code calls vsync.Now() instead of time.Now().
// With no virtual time set it is the real clock.
var clock struct {
	mu  sync.Mutex
	set bool
	now time.Time
}

func Now() time.Time {
	clock.mu.Lock()
	defer clock.mu.Unlock()
	if clock.set {
		return clock.now
	}
	return time.Now()
}

// SetNow installs (or with the zero time removes) the virtual time.
func SetNow(t time.Time) {
	clock.mu.Lock()
	clock.set = !t.IsZero()
	clock.now = t
	clock.mu.Unlock()
}
