//go:build !race

package vsync

func raceRelease(p uintptr) {}
func raceAcquire(p uintptr) {}
