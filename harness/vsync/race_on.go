//go:build race

package vsync

import (
	"runtime"
	"unsafe"
)

// Channel communication performed by the scheduler on behalf of the program
// is announced to the race detector as the release/acquire pair a native
// channel operation would have produced.
func raceRelease(p uintptr) { runtime.RaceRelease(unsafe.Pointer(p)) }
func raceAcquire(p uintptr) { runtime.RaceAcquire(unsafe.Pointer(p)) }
