package vsched

import (
	"syscall"
	"unsafe"
)

// Raw futex parking. The word is accessed with plain loads and stores inside
// //go:norace functions (sync/atomic operations would be seen by the race
// detector as synchronisation), and the raw system call is not instrumented
// either, so a hand-off through these functions creates no happens-before
// edge. The futex system call orders the accesses for the hardware.

const (
	futexWait = 0
	futexWake = 1
)

//go:norace
//go:noinline
func loadWord(w *int32) int32 { return *w }

//go:norace
//go:noinline
func storeWord(w *int32, v int32) { *w = v }

//go:norace
func futexPark(w *int32) {
	for {
		if loadWord(w) == 1 {
			storeWord(w, 0)
			return
		}
		// sleeps only if the word is still 0
		syscall.Syscall6(syscall.SYS_FUTEX, uintptr(unsafe.Pointer(w)), futexWait, 0, 0, 0, 0)
	}
}

//go:norace
func futexUnpark(w *int32) {
	storeWord(w, 1)
	syscall.Syscall6(syscall.SYS_FUTEX, uintptr(unsafe.Pointer(w)), futexWake, 1, 0, 0, 0)
}
