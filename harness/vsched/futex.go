package vsched

import (
	"sync/atomic"
	"syscall"
	"unsafe"
)

// Raw futex parking: the race detector instruments neither the raw system
// call nor the accesses below (norace), so a hand-off through these
// functions creates no happens-before edge.

const (
	futexWait = 0
	futexWake = 1
)

//go:norace
func futexPark(w *int32) {
	for {
		if atomic.CompareAndSwapInt32(w, 1, 0) {
			return
		}
		syscall.Syscall6(syscall.SYS_FUTEX, uintptr(unsafe.Pointer(w)), futexWait, 0, 0, 0, 0)
	}
}

//go:norace
func futexUnpark(w *int32) {
	atomic.StoreInt32(w, 1)
	syscall.Syscall6(syscall.SYS_FUTEX, uintptr(unsafe.Pointer(w)), futexWake, 1, 0, 0, 0)
}
