// Package vsched is the schedule explorer (E1): a cooperative scheduler that
// serialises controlled goroutines of the real code at their synchronisation
// operations, and a stateless depth-first search over its choice points.
//
// All scheduler state shared between controlled threads lives in fixed-size
// arrays touched only from //go:norace functions that avoid maps, append and
// channel operations, so that with the futex parker the Go race detector sees
// none of the scheduler's own hand-offs (no happens-before edges are created)
// and judges exactly the program's own synchronisation.
package vsched

import (
	"fmt"
	"os"
	"sync"
	"time"
	"unsafe"
)

const (
	MaxThreads = 12
	maxObjs    = 256
	maxCases   = 4
	maxChoices = 64
	maxTrace   = 1 << 13
)

type OpKind int32

const (
	OpNone   OpKind = iota
	OpResume        // always enabled (thread start, after rendezvous completed by a partner, plain yield)
	OpLock
	OpRLock
	OpSend
	OpRecv
	OpSelect
	OpDone // thread finished
)

const (
	dirRecv    = 0
	dirSend    = 1
	dirDefault = 2
	dirForeign = 3 // receive on a channel not created by rewritten code: enabled iff really closed
)

type selCase struct {
	dir  int32
	ch   uintptr
	val  any
	poll func() bool // foreign channels: reports "closed"
}

type thread struct {
	used   bool
	word   int32 // futex word / parked flag
	wake   chan struct{}
	op     OpKind
	obj    uintptr
	cases  [maxCases]selCase
	ncases int32
	// results of a completed communication
	gotVal any
	gotOK  bool
	selIdx int32
	name   string
	steps  int32
}

type mutexState struct {
	ptr     uintptr
	writer  int32 // thread id + 1, 0 = free
	readers int32
}

type chanState struct {
	ptr    uintptr
	closed bool
	cap    int32
	n      int32
	buf    [4]any
}

type choice struct {
	tid     int32
	caseIdx int32 // select case index, or 0
	partner int32 // partner thread for a rendezvous, -1 if none
}

// Point is one recorded choice point of an execution.
type Point struct {
	N          int32 // number of enabled choices
	Chosen     int32
	CurEnabled bool  // the running thread was still enabled (choosing another thread is a preemption)
	NCur       int32 // how many of the leading choices belong to the running thread
}

// Sched is the state of one controlled execution.
type Sched struct {
	threads  [MaxThreads]thread
	nthreads int32
	cur      int32
	mutexes  [maxObjs]mutexState
	nmutex   int32
	chans    [maxObjs]chanState
	nchans   int32

	prefix   []int32
	trace    [maxTrace]Point
	ntrace   int32
	futex    bool
	failed   int32 // 1 deadlock, 2 horizon, 3 replay divergence
	failMsg  string
	done     chan struct{} // closed (by the last thread) when every thread has finished
	doneW    int32
	wg       sync.WaitGroup
	log      [512]string
	nlog     int32
	aborted  int32
	maxSteps int32
}

// S is the scheduler of the execution in progress; nil means free-running
// (every shim operation degrades to the native one).
var S *Sched

// Active reports whether a controlled execution is in progress.
//
//go:norace
func Active() *Sched { return S }

//go:norace
func (s *Sched) Log(msg string) {
	if s.nlog < int32(len(s.log)) {
		s.log[s.nlog] = msg
		s.nlog++
	}
}

// Logs returns the observation log of the execution (driver side, after completion).
func (s *Sched) Logs() []string {
	return append([]string(nil), s.log[:s.nlog]...)
}

//go:norace
func (s *Sched) Cur() int { return int(s.cur) }

//go:norace
func (s *Sched) fail(code int32, msg string) {
	if s.failed == 0 {
		s.failed = code
		s.failMsg = msg
	}
}

// ---- parking ----

//go:norace
func (s *Sched) park(t *thread) {
	if s.futex {
		futexPark(&t.word)
		return
	}
	<-t.wake
}

//go:norace
func (s *Sched) unpark(t *thread) {
	if s.futex {
		futexUnpark(&t.word)
		return
	}
	t.wake <- struct{}{}
}

// ---- object tables ----

//go:norace
func (s *Sched) mutex(p uintptr) *mutexState {
	for i := int32(0); i < s.nmutex; i++ {
		if s.mutexes[i].ptr == p {
			return &s.mutexes[i]
		}
	}
	if s.nmutex >= maxObjs {
		panic("vsched: too many mutexes")
	}
	m := &s.mutexes[s.nmutex]
	s.nmutex++
	*m = mutexState{ptr: p}
	return m
}

//go:norace
func (s *Sched) chanOf(p uintptr) *chanState {
	for i := int32(0); i < s.nchans; i++ {
		if s.chans[i].ptr == p {
			return &s.chans[i]
		}
	}
	return nil
}

// RegisterChan records a channel created by rewritten code.
//
//go:norace
func (s *Sched) RegisterChan(p uintptr, capacity int) {
	if s.chanOf(p) != nil {
		return
	}
	if s.nchans >= maxObjs {
		panic("vsched: too many channels")
	}
	if capacity > 4 {
		panic("vsched: channel capacity > 4 not supported")
	}
	s.chans[s.nchans] = chanState{ptr: p, cap: int32(capacity)}
	s.nchans++
}

// ---- enabledness ----

// partnerFor finds, starting after `from`, a thread other than tid that is
// pending on the complementary operation on channel ch. want is dirRecv when
// we look for a receiver (we are sending).
//
//go:norace
func (s *Sched) partnerFor(tid int32, ch uintptr, want int32, from int32) (int32, int32) {
	for i := from; i < s.nthreads; i++ {
		if i == tid {
			continue
		}
		t := &s.threads[i]
		switch t.op {
		case OpSend:
			if want == dirSend && t.obj == ch {
				return i, 0
			}
		case OpRecv:
			if want == dirRecv && t.obj == ch {
				return i, 0
			}
		case OpSelect:
			for k := int32(0); k < t.ncases; k++ {
				if t.cases[k].ch == ch && t.cases[k].dir == want {
					return i, k
				}
			}
		}
	}
	return -1, 0
}

// caseChoices appends the enabled variants of one communication case.
//
//go:norace
func (s *Sched) caseChoices(tid int32, caseIdx int32, dir int32, ch uintptr, poll func() bool, out *[maxChoices]choice, n int32) int32 {
	switch dir {
	case dirDefault:
		// handled by the caller (only when nothing else is ready)
	case dirForeign:
		if poll != nil && poll() {
			n = addChoice(out, n, tid, caseIdx, -1)
		}
	case dirRecv:
		c := s.chanOf(ch)
		if c == nil {
			return n
		}
		if c.n > 0 {
			return addChoice(out, n, tid, caseIdx, -1)
		}
		from := int32(0)
		found := false
		for {
			p, _ := s.partnerFor(tid, ch, dirSend, from)
			if p < 0 {
				break
			}
			n = addChoice(out, n, tid, caseIdx, p)
			found = true
			from = p + 1
		}
		if !found && c.closed {
			n = addChoice(out, n, tid, caseIdx, -1)
		}
	case dirSend:
		c := s.chanOf(ch)
		if c == nil {
			return n
		}
		if c.closed {
			return addChoice(out, n, tid, caseIdx, -1) // will panic, as in Go
		}
		from := int32(0)
		found := false
		for {
			p, _ := s.partnerFor(tid, ch, dirRecv, from)
			if p < 0 {
				break
			}
			n = addChoice(out, n, tid, caseIdx, p)
			found = true
			from = p + 1
		}
		if !found && c.n < c.cap {
			n = addChoice(out, n, tid, caseIdx, -1)
		}
	}
	return n
}

//go:norace
func addChoice(out *[maxChoices]choice, n, tid, caseIdx, partner int32) int32 {
	if n < maxChoices {
		out[n] = choice{tid: tid, caseIdx: caseIdx, partner: partner}
		n++
	}
	return n
}

//go:norace
func (s *Sched) threadChoices(tid int32, out *[maxChoices]choice, n int32) int32 {
	t := &s.threads[tid]
	switch t.op {
	case OpResume:
		if n < maxChoices {
			out[n] = choice{tid: tid, partner: -1}
			n++
		}
	case OpLock:
		m := s.mutex(t.obj)
		if m.writer == 0 && m.readers == 0 {
			out[n] = choice{tid: tid, partner: -1}
			n++
		}
	case OpRLock:
		m := s.mutex(t.obj)
		if m.writer == 0 {
			out[n] = choice{tid: tid, partner: -1}
			n++
		}
	case OpSend:
		n = s.caseChoices(tid, 0, dirSend, t.obj, nil, out, n)
	case OpRecv:
		if t.ncases == 1 && t.cases[0].dir == dirForeign {
			n = s.caseChoices(tid, 0, dirForeign, t.obj, t.cases[0].poll, out, n)
		} else {
			n = s.caseChoices(tid, 0, dirRecv, t.obj, nil, out, n)
		}
	case OpSelect:
		before := n
		def := int32(-1)
		for k := int32(0); k < t.ncases; k++ {
			c := &t.cases[k]
			if c.dir == dirDefault {
				def = k
				continue
			}
			n = s.caseChoices(tid, k, c.dir, c.ch, c.poll, out, n)
		}
		if n == before && def >= 0 && n < maxChoices {
			out[n] = choice{tid: tid, caseIdx: def, partner: -1}
			n++
		}
	}
	return n
}

// ---- the scheduling point ----

// schedule is called by the running thread after it has published its
// pending operation. It picks the next transition, performs it on the shadow
// state, and hands the baton over. It returns when the calling thread has
// been chosen (its pending operation has been performed).
//
//go:norace
func (s *Sched) schedule() {
	self := s.cur
	me := &s.threads[self]
	me.steps++
	if me.steps > s.maxSteps {
		s.fail(2, "horizon exceeded: thread "+me.name+" took too many steps")
		s.abort()
		return
	}
	var cs [maxChoices]choice
	n := int32(0)
	curEnabled := false
	ncur := int32(0)
	if me.op != OpDone {
		n = s.threadChoices(self, &cs, n)
		ncur = n
		curEnabled = n > 0
	}
	for i := int32(0); i < s.nthreads; i++ {
		if i != self && s.threads[i].used && s.threads[i].op != OpDone {
			n = s.threadChoices(i, &cs, n)
		}
	}
	if n == 0 {
		// nothing enabled: either everything has finished or we are deadlocked
		all := true
		for i := int32(0); i < s.nthreads; i++ {
			if s.threads[i].used && s.threads[i].op != OpDone {
				all = false
			}
		}
		if !all {
			msg := "deadlock: no enabled thread;"
			for i := int32(0); i < s.nthreads; i++ {
				t := &s.threads[i]
				if t.used && t.op != OpDone {
					msg += " " + t.name + ":" + opName(t.op)
				}
			}
			s.fail(1, msg)
			s.abort()
			return
		}
		s.finish()
		return
	}
	pick := int32(0)
	pos := s.ntrace
	if int(pos) < len(s.prefix) {
		pick = s.prefix[pos]
		if pick >= n {
			s.fail(3, "replay divergence: choice out of range (nondeterminism not captured)")
			s.abort()
			return
		}
	}
	if pos < maxTrace {
		s.trace[pos] = Point{N: n, Chosen: pick, CurEnabled: curEnabled, NCur: ncur}
		s.ntrace++
	} else {
		s.fail(2, "horizon exceeded: trace too long")
		s.abort()
		return
	}
	c := cs[pick]
	s.perform(c)
	next := &s.threads[c.tid]
	if c.tid == self {
		return
	}
	s.cur = c.tid
	s.unpark(next)
	if me.op == OpDone {
		return
	}
	s.park(me)
}

//go:norace
func opName(k OpKind) string {
	switch k {
	case OpResume:
		return "resume"
	case OpLock:
		return "lock"
	case OpRLock:
		return "rlock"
	case OpSend:
		return "send"
	case OpRecv:
		return "recv"
	case OpSelect:
		return "select"
	case OpDone:
		return "done"
	}
	return "none"
}

// perform applies the chosen transition to the shadow state; afterwards the
// chosen thread's pending operation is complete.
//
//go:norace
func (s *Sched) perform(c choice) {
	t := &s.threads[c.tid]
	switch t.op {
	case OpResume:
	case OpLock:
		s.mutex(t.obj).writer = c.tid + 1
	case OpRLock:
		s.mutex(t.obj).readers++
	case OpSend:
		s.comm(c.tid, 0, dirSend, t.obj, t.cases[0].val, c.partner)
	case OpRecv:
		if t.ncases == 1 && t.cases[0].dir == dirForeign {
			t.gotVal, t.gotOK = nil, false
		} else {
			s.comm(c.tid, 0, dirRecv, t.obj, nil, c.partner)
		}
	case OpSelect:
		cs := &t.cases[c.caseIdx]
		t.selIdx = c.caseIdx
		switch cs.dir {
		case dirDefault:
		case dirForeign:
			t.gotVal, t.gotOK = nil, false
		default:
			s.comm(c.tid, c.caseIdx, cs.dir, cs.ch, cs.val, c.partner)
		}
	}
	t.op = OpNone
}

// comm performs a channel communication of thread tid (direction dir on ch),
// with the given partner thread (rendezvous) or the buffer / closed state.
//
//go:norace
func (s *Sched) comm(tid, caseIdx, dir int32, ch uintptr, val any, partner int32) {
	t := &s.threads[tid]
	c := s.chanOf(ch)
	if dir == dirSend {
		if c.closed {
			panic("send on closed channel")
		}
		if partner >= 0 {
			p := &s.threads[partner]
			_, k := s.partnerFor(tid, ch, dirRecv, partner)
			p.gotVal, p.gotOK = val, true
			p.selIdx = k
			p.op = OpResume
			return
		}
		c.buf[c.n] = val
		c.n++
		return
	}
	// receive
	if partner >= 0 {
		p := &s.threads[partner]
		_, k := s.partnerFor(tid, ch, dirSend, partner)
		var v any
		if p.op == OpSelect {
			v = p.cases[k].val
		} else {
			v = p.cases[0].val
		}
		t.gotVal, t.gotOK = v, true
		p.selIdx = k
		p.op = OpResume
		return
	}
	if c.n > 0 {
		t.gotVal, t.gotOK = c.buf[0], true
		for i := int32(1); i < c.n; i++ {
			c.buf[i-1] = c.buf[i]
		}
		c.n--
		c.buf[c.n] = nil
		return
	}
	// closed and empty
	t.gotVal, t.gotOK = nil, false
}

// finish is called when no thread has anything left to do.
//
//go:norace
func (s *Sched) finish() {
	if s.futex {
		futexUnpark(&s.doneW)
		return
	}
	close(s.done)
}

// abort ends a failed execution: blocked threads stay parked (they are leaked;
// a failed execution ends the exploration of this harness).
//
//go:norace
func (s *Sched) abort() {
	storeWord(&s.aborted, 1)
	s.finish()
	// the calling thread must not continue running the program
	select {}
}

// ---- operations used by the shims ----

// Yield is a plain scheduling point.
//
//go:norace
func (s *Sched) Yield() {
	t := &s.threads[s.cur]
	t.op = OpResume
	s.schedule()
}

//go:norace
func (s *Sched) Lock(p uintptr) {
	t := &s.threads[s.cur]
	t.op, t.obj = OpLock, p
	s.schedule()
}

//go:norace
func (s *Sched) RLock(p uintptr) {
	t := &s.threads[s.cur]
	t.op, t.obj = OpRLock, p
	s.schedule()
}

//go:norace
func (s *Sched) Unlock(p uintptr) {
	// No scheduling point after an unlock: by data-race freedom the code up to
	// the thread's next synchronisation operation commutes with other threads,
	// and that next operation is itself a scheduling point.
	m := s.mutex(p)
	m.writer = 0
}

//go:norace
func (s *Sched) RUnlock(p uintptr) {
	m := s.mutex(p)
	if m.readers > 0 {
		m.readers--
	}
}

//go:norace
func (s *Sched) Send(ch uintptr, v any) {
	t := &s.threads[s.cur]
	t.op, t.obj = OpSend, ch
	t.ncases = 1
	t.cases[0] = selCase{dir: dirSend, ch: ch, val: v}
	s.schedule()
}

//go:norace
func (s *Sched) Recv(ch uintptr, foreign func() bool) (any, bool) {
	t := &s.threads[s.cur]
	t.op, t.obj = OpRecv, ch
	t.ncases = 1
	if s.chanOf(ch) == nil {
		t.cases[0] = selCase{dir: dirForeign, ch: ch, poll: foreign}
	} else {
		t.cases[0] = selCase{dir: dirRecv, ch: ch}
	}
	s.schedule()
	v, ok := t.gotVal, t.gotOK
	t.gotVal = nil
	return v, ok
}

// Case describes one select case for Select.
type Case struct {
	Dir     int // 0 recv, 1 send, 2 default
	Ch      uintptr
	Val     any
	Foreign func() bool
}

//go:norace
func (s *Sched) Select(cases []Case) (int, any, bool) {
	t := &s.threads[s.cur]
	if len(cases) > maxCases {
		panic("vsched: select with too many cases")
	}
	t.op = OpSelect
	t.ncases = int32(len(cases))
	for i := range cases {
		c := cases[i]
		sc := selCase{dir: int32(c.Dir), ch: c.Ch, val: c.Val}
		if c.Dir == dirRecv && s.chanOf(c.Ch) == nil {
			sc.dir = dirForeign
			sc.poll = c.Foreign
		}
		t.cases[i] = sc
	}
	s.schedule()
	v, ok := t.gotVal, t.gotOK
	t.gotVal = nil
	return int(t.selIdx), v, ok
}

//go:norace
func (s *Sched) Close(ch uintptr) {
	c := s.chanOf(ch)
	if c == nil {
		panic("vsched: close of unregistered channel")
	}
	if c.closed {
		panic("close of closed channel")
	}
	c.closed = true
}

// Go starts f as a new controlled thread. The real goroutine is created by
// the calling thread so that the race detector sees parent->child ordering.
func (s *Sched) Go(name string, f func()) {
	id := s.newThread(name)
	t := &s.threads[id]
	s.wg.Add(1)
	go func() {
		defer s.wg.Done()
		s.park(t)
		defer s.exit()
		f()
	}()
}

//go:norace
func (s *Sched) newThread(name string) int32 {
	if s.nthreads >= MaxThreads {
		panic("vsched: too many threads")
	}
	id := s.nthreads
	s.nthreads++
	t := &s.threads[id]
	t.used = true
	t.op = OpResume
	t.name = name
	if !s.futex {
		t.wake = make(chan struct{}, 1)
	}
	return id
}

//go:norace
func (s *Sched) exit() {
	if loadWord(&s.aborted) != 0 {
		return
	}
	t := &s.threads[s.cur]
	t.op = OpDone
	s.schedule()
}

// ---- running one execution ----

// Result of one controlled execution.
type Result struct {
	Trace   []Point
	Failed  int // 0 ok, 1 deadlock, 2 horizon, 3 divergence, 4 real block (watchdog)
	FailMsg string
	Logs    []string
	Sched   *Sched
}

var runMu sync.Mutex

// Watchdog bounds one execution: exceeding it means a controlled thread
// blocked in an uninstrumented operation (a harness error, never a verdict).
var Watchdog = 60 * time.Second

// NumThreads reports how many controlled threads the execution created.
func (s *Sched) NumThreads() int { return int(s.nthreads) }

// Run executes body as thread 0 under the scheduler, replaying prefix and
// then always taking choice 0.
func Run(prefix []int32, futexMode bool, body func(s *Sched)) Result {
	runMu.Lock()
	defer runMu.Unlock()
	s := &Sched{prefix: prefix, futex: futexMode, done: make(chan struct{}), maxSteps: 20000}
	id := s.newThread("main")
	s.cur = id
	S = s
	s.wg.Add(1)
	go func() {
		defer s.wg.Done()
		defer s.exit()
		s.threads[0].op = OpNone
		body(s)
	}()
	finished := make(chan struct{})
	go func() {
		if futexMode {
			futexPark(&s.doneW)
		} else {
			<-s.done
		}
		close(finished)
	}()
	select {
	case <-finished:
	case <-time.After(Watchdog):
		S = nil
		fmt.Fprintln(os.Stderr, "vsched: watchdog: a controlled thread blocked for real (uninstrumented blocking operation)")
		return Result{Failed: 4, FailMsg: "watchdog: controlled thread blocked in an uninstrumented operation", Sched: s}
	}
	if loadWord(&s.aborted) == 0 {
		s.wg.Wait() // real join: thread -> driver ordering is visible to the race detector
	}
	S = nil
	r := Result{Trace: append([]Point(nil), s.trace[:s.ntrace]...), Failed: int(s.failed), FailMsg: s.failMsg, Logs: s.Logs(), Sched: s}
	return r
}

var _ = unsafe.Pointer(nil)
