package vsched

import (
	"time"
)

// Explorer is the stateless depth-first search over choice sequences:
// run(prefix) replays the prefix and then always takes choice 0; every
// alternative at every later point is explored if its preemption cost stays
// within the bound.
type Explorer struct {
	Bound    int // max preemptions; < 0 = unbounded
	Futex    bool
	MaxExec  int64
	Deadline time.Duration
}

type Stats struct {
	Executions  int64
	Points      int64 // scheduling points executed (transitions)
	MaxDepth    int
	MaxThreads  int
	Complete    bool // the whole bounded space was explored
	CapHit      string
	Failures    int64
	Preemptions map[int]int64 // executions by number of preemptions
}

// Explore runs body under every schedule within the bound. check is called on
// the driver goroutine after every execution; it returns false to stop.
func (e *Explorer) Explore(body func(s *Sched), check func(prefix []int32, res Result) bool) Stats {
	st := Stats{Preemptions: map[int]int64{}}
	start := time.Now()
	type frame struct{ prefix []int32 }
	stack := []frame{{nil}}
	// determinism self-check: the default schedule run twice must take the same path
	{
		a := Run(nil, e.Futex, body)
		b := Run(nil, e.Futex, body)
		same := len(a.Trace) == len(b.Trace) && a.Failed == b.Failed
		for i := 0; same && i < len(a.Trace); i++ {
			same = a.Trace[i] == b.Trace[i]
		}
		if !same {
			st.CapHit = "nondeterministic-harness"
			st.Failures++
			check(nil, Result{Failed: 3, FailMsg: "determinism self-check failed: the same schedule produced two different traces", Sched: b.Sched, Logs: b.Logs})
			return st
		}
	}
	for len(stack) > 0 {
		if e.MaxExec > 0 && st.Executions >= e.MaxExec {
			st.CapHit = "max-executions"
			return st
		}
		if e.Deadline > 0 && time.Since(start) > e.Deadline {
			st.CapHit = "deadline"
			return st
		}
		f := stack[len(stack)-1]
		stack = stack[:len(stack)-1]
		res := Run(f.prefix, e.Futex, body)
		st.Executions++
		st.Points += int64(len(res.Trace))
		if len(res.Trace) > st.MaxDepth {
			st.MaxDepth = len(res.Trace)
		}
		if n := int(res.Sched.nthreads); n > st.MaxThreads {
			st.MaxThreads = n
		}
		if res.Failed != 0 {
			st.Failures++
		}
		choices := make([]int32, len(res.Trace))
		pre := 0
		preBefore := make([]int, len(res.Trace)+1)
		for i, p := range res.Trace {
			choices[i] = p.Chosen
			preBefore[i] = pre
			if p.CurEnabled && p.Chosen >= p.NCur {
				pre++
			}
		}
		st.Preemptions[pre]++
		if !check(choices, res) {
			st.CapHit = "stopped-by-check"
			return st
		}
		if res.Failed != 0 {
			continue // do not branch below a failed execution's divergent tail
		}
		// push alternatives in reverse so that exploration order is simplest-first
		for i := len(res.Trace) - 1; i >= len(f.prefix); i-- {
			p := res.Trace[i]
			for alt := p.N - 1; alt >= 1; alt-- {
				cost := preBefore[i]
				if p.CurEnabled && alt >= p.NCur {
					cost++
				}
				if e.Bound >= 0 && cost > e.Bound {
					continue
				}
				np := make([]int32, i+1)
				copy(np, choices[:i])
				np[i] = alt
				stack = append(stack, frame{np})
			}
		}
	}
	st.Complete = true
	return st
}
