package props

import (
	"bytes"
	"context"
	"fmt"

	"cuelabs.dev/go/oci/ociregistry"

	"verif/vcore"
)

// Two uploads alive at once on one stack, after an earlier upload has been finished the customary way
// (Commit, then Close): the bytes written to one never show up in the other, whatever either writer
// keeps between its calls.

type c04PairCase struct {
	Stack    string `json:"stack"`
	MinChunk int    `json:"registry_min_chunk"`
	Hint     int    `json:"hint"`
	A        []int  `json:"pieces_a"`
	B        []int  `json:"pieces_b"`
	Finish   string `json:"earlier_upload_finished_by"` // commit+close, commit, cancel, close
	// Index, Thorough: position in the tier's case list. The cases run in order in one process, and the
	// client may keep process-wide state between writers: a replay runs the cases before this one first.
	Index    int  `json:"index_in_case_list"`
	Thorough bool `json:"thorough_list"`
}

func c04PairRun(r *vcore.Run, c c04PairCase) {
	ctx := context.Background()
	fp := fmt.Sprintf("C04/%s/two-uploads-alive-at-once/after-%s", c.Stack, c.Finish)
	r.Guard("pair", fp, c, func() {
		reg := c04Stack(c.Stack, c.MinChunk)
		// the earlier upload
		w0, err := reg.PushBlobChunked(ctx, "r", c.Hint)
		if err != nil {
			r.Violate("pair", fp+"/setup", c, "upload starts", err.Error())
			return
		}
		c04Write(w0, []byte("zz"))
		switch c.Finish {
		case "commit+close":
			w0.Commit(sha256Digest([]byte("zz")))
			w0.Close()
		case "commit":
			w0.Commit(sha256Digest([]byte("zz")))
		case "cancel":
			w0.Cancel()
		case "close":
			w0.Close()
		}
		wa, erra := reg.PushBlobChunked(ctx, "r", c.Hint)
		wb, errb := reg.PushBlobChunked(ctx, "r", c.Hint)
		if erra != nil || errb != nil {
			r.Violate("pair", fp+"/setup", c, "two uploads start", fmt.Sprint(erra, errb))
			return
		}
		var da, db []byte
		ca, cb := c04Content(8), bytes.ToUpper(c04Content(8))
		for i := 0; i < len(c.A) || i < len(c.B); i++ {
			if i < len(c.A) {
				p := ca[len(da) : len(da)+c.A[i]]
				if _, err := c04Write(wa, p); err != nil {
					r.Violate("pair", fp+"/write-failed", c, "write accepted", err.Error())
					return
				}
				da = append(da, p...)
			}
			if i < len(c.B) {
				p := cb[len(db) : len(db)+c.B[i]]
				if _, err := c04Write(wb, p); err != nil {
					r.Violate("pair", fp+"/write-failed", c, "write accepted", err.Error())
					return
				}
				db = append(db, p...)
			}
		}
		for _, x := range []struct {
			name string
			w    ociregistry.BlobWriter
			data []byte
		}{{"first", wa, da}, {"second", wb, db}} {
			if x.w.Size() != int64(len(x.data)) {
				r.Violate("pair", fp+"/size", c, fmt.Sprint(len(x.data)), fmt.Sprint(x.w.Size()))
			}
			desc, err := x.w.Commit(sha256Digest(x.data))
			x.w.Close()
			if err != nil {
				r.Violate("pair", fp+"/commit-of-the-bytes-written-refused", c, fmt.Sprintf("the %s upload commits as %q", x.name, x.data), err.Error())
				continue
			}
			got, _, err := readAllOf(reg.GetBlob(ctx, "r", desc.Digest))
			if err != nil || !bytes.Equal(got, x.data) {
				r.Violate("pair", fp+"/content-differs", c, fmt.Sprintf("%q", x.data), fmt.Sprintf("%q %v", got, err))
			}
		}
		r.Outcome("pair-ok")
	})
}

func c04PairCases(thorough bool) []c04PairCase {
	var out []c04PairCase
	comps := [][]int{{1}, {2}, {3}, {1, 1}, {1, 2}, {2, 1}, {2, 2}, {1, 1, 1}}
	stacks := []struct {
		name string
		mins []int
	}{{"mem", []int{0}}, {"http1", []int{1, 2, 3, 8192}}, {"http2", []int{2}}, {"uni", []int{0}}}
	for _, st := range stacks {
		for _, mc := range st.mins {
			for _, hint := range []int{0, 1, 3} {
				for _, fin := range []string{"commit+close", "commit", "cancel", "close"} {
					for _, a := range comps {
						for _, b := range comps {
							if !thorough && len(a)+len(b) > 4 {
								continue
							}
							out = append(out, c04PairCase{Stack: st.name, MinChunk: mc, Hint: hint, A: a, B: b, Finish: fin, Index: len(out), Thorough: thorough})
						}
					}
				}
			}
		}
	}
	return out
}
