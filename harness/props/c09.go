package props

import (
	"encoding/json"
	"fmt"
	"math/bits"
	"slices"
	"sort"
	"strings"
	"sync/atomic"

	"cuelabs.dev/go/oci/ociregistry/ociauth"

	"verif/vcore"
)

// C09: scopes are finite sets of triples. E4: exhaustive over all subsets of a
// small universe, all ordered pairs, all construction routes, against a
// bitmask set model.

func init() {
	vcore.Register(&vcore.Prop{ID: "C09", Level: "exploration", Engine: "E4-enum", Check: c09Check, Replay: c09Replay})
}

type rs = ociauth.ResourceScope

var c09UniverseFull = []rs{
	{ResourceType: "repository", Resource: "a", Action: "pull"},
	{ResourceType: "repository", Resource: "a", Action: "push"},
	{ResourceType: "repository", Resource: "b", Action: "pull"},
	{ResourceType: "registry", Resource: "catalog", Action: "*"},
	{ResourceType: "repository", Resource: "", Action: "pull"},   // empty name: must not be the catalog
	{ResourceType: "repository", Resource: "a", Action: "pulse"}, // unknown action sorting between pull and push
	{ResourceType: "other", Resource: "a", Action: "y"},          // another type naming the same resource as a repository (printing must not merge them)
	{ResourceType: "zz"}, // opaque single word
	{ResourceType: "zz", Resource: "r", Action: "act"},          // a fifth member of the "others" list, sorting last
	{ResourceType: "repository", Resource: "b", Action: "push"}, // a second action on the second repository (results that share action storage differ)
	// thorough only:
	{ResourceType: "repository", Resource: "a", Action: "delete"},
	{ResourceType: "registry", Resource: "catalog", Action: "pull"},
	{ResourceType: "repository", Resource: "a/b", Action: "pull"},
	{ResourceType: "repository", Resource: "catalog", Action: "pull"}, // a repository that happens to be called like the catalog sentinel
}

func rsText(r rs) string {
	if r.Resource == "" && r.Action == "" {
		return r.ResourceType
	}
	return r.ResourceType + ":" + r.Resource + ":" + r.Action
}

func rsClean(r rs) bool {
	for _, f := range []string{r.ResourceType, r.Resource, r.Action} {
		if f == "" || strings.ContainsAny(f, " \t\n:,") {
			return false
		}
	}
	return true
}

type c09Env struct {
	u     []rs
	order []int // indices of u sorted by Compare
	canon []ociauth.Scope
	text  []ociauth.Scope // built by ParseScope (retains original text)
	dirty uint32          // elements with empty or separator-bearing fields
	alt   bool            // not a prefix of c09UniverseFull (cases then carry the universe)
}

func newC09Env(n int) *c09Env { return newC09EnvOf(c09UniverseFull[:n]) }

func newC09EnvAlt(u []rs) *c09Env {
	e := newC09EnvOf(u)
	e.alt = true
	return e
}

func newC09EnvOf(u []rs) *c09Env {
	n := len(u)
	e := &c09Env{u: u}
	e.order = make([]int, n)
	for i := range e.order {
		e.order[i] = i
	}
	sort.Slice(e.order, func(i, j int) bool { return e.u[e.order[i]].Compare(e.u[e.order[j]]) < 0 })
	for i, x := range e.u {
		if !rsClean(x) {
			e.dirty |= 1 << i
		}
	}
	return e
}

func (e *c09Env) elems(mask uint32) []rs {
	var out []rs
	for _, i := range e.order {
		if mask&(1<<i) != 0 {
			out = append(out, e.u[i])
		}
	}
	return out
}

func (e *c09Env) names(mask uint32) string {
	var s []string
	for _, r := range e.elems(mask) {
		s = append(s, rsText(r))
	}
	return "{" + strings.Join(s, " ") + "}"
}

func (e *c09Env) textOf(mask uint32) string {
	var s []string
	for _, r := range e.elems(mask) {
		s = append(s, rsText(r))
	}
	return strings.Join(s, " ")
}

// observe returns the mask of universe elements a scope iterates, plus
// problems with the iteration itself.
func (e *c09Env) observe(s ociauth.Scope) (mask uint32, problem string) {
	var prev *rs
	s.Iter()(func(r rs) bool {
		if prev != nil && prev.Compare(r) >= 0 {
			problem = fmt.Sprintf("iteration not strictly ascending: %s then %s", rsText(*prev), rsText(r))
		}
		r0 := r
		prev = &r0
		found := false
		for i, u := range e.u {
			if u == r {
				mask |= 1 << i
				found = true
			}
		}
		if !found && problem == "" {
			problem = "iterated element outside the universe: " + rsText(r)
		}
		return true
	})
	return
}

type c09Case struct {
	Op    string   `json:"op"`
	A     []string `json:"a"`
	B     []string `json:"b,omitempty"`
	Route string   `json:"route,omitempty"`
	N     int      `json:"universe"`
	MA    uint32   `json:"mask_a"`
	MB    uint32   `json:"mask_b"`
	U     []rs     `json:"universe_elements,omitempty"` // set when the universe is not a prefix of the standard one
}

func (e *c09Env) mkCase(op string, a, b uint32, route string) c09Case {
	c := c09Case{Op: op, Route: route, N: len(e.u), MA: a, MB: b}
	if e.alt {
		c.U = e.u
	}
	for _, r := range e.elems(a) {
		c.A = append(c.A, rsText(r))
	}
	for _, r := range e.elems(b) {
		c.B = append(c.B, rsText(r))
	}
	return c
}

func (e *c09Env) diff(want, got uint32) string {
	return fmt.Sprintf("missing=%s/extra=%s", e.names(want&^got), e.names(got&^want))
}

// checkScope checks every unary law of s against the model set `want`.
func (e *c09Env) checkScope(r *vcore.Run, s ociauth.Scope, want uint32, route string) {
	c := e.mkCase("unary", want, 0, route)
	r.Guard("unary", "C09/unary", c, func() {
		got, prob := e.observe(s)
		if prob != "" {
			r.Violate("unary", "C09/Iter/order-or-alien", c, "strictly ascending elements of the set", prob)
		}
		if got != want {
			r.Violate("unary", "C09/Iter/"+e.diff(want, got), c, e.names(want), e.names(got))
		}
		if n := s.Len(); n != bits.OnesCount32(want) {
			r.Violate("unary", fmt.Sprintf("C09/Len/%s", e.diffLen(want, n)), c, fmt.Sprint(bits.OnesCount32(want)), fmt.Sprint(n))
		}
		if s.IsEmpty() != (want == 0) {
			r.Violate("unary", "C09/IsEmpty", c, fmt.Sprint(want == 0), fmt.Sprint(s.IsEmpty()))
		}
		if s.IsUnlimited() {
			r.Violate("unary", "C09/IsUnlimited", c, "false", "true")
		}
		for i, u := range e.u {
			if h := s.Holds(u); h != (want&(1<<i) != 0) {
				kind := "false-positive"
				if !h {
					kind = "false-negative"
				}
				r.Violate("unary", fmt.Sprintf("C09/Holds/%s/%s", rsText(u), kind), c, fmt.Sprint(!h), fmt.Sprint(h))
			}
		}
		// early stop: after the consumer declines, no further calls
		total := bits.OnesCount32(got)
		for k := 1; k <= total; k++ {
			calls := 0
			s.Iter()(func(rs) bool { calls++; return calls < k })
			if calls != k {
				r.Violate("unary", "C09/Iter/early-stop", c, fmt.Sprintf("%d calls", k), fmt.Sprintf("%d calls", calls))
			}
		}
		// one iterator value run three times (fully, abandoned after one element, fully): an iterator value
		// describes the set, it is not a cursor over it
		it := s.Iter()
		var pass [3][]rs
		for p := 0; p < 3; p++ {
			p := p
			it(func(x rs) bool {
				pass[p] = append(pass[p], x)
				return p != 1
			})
		}
		if !slices.Equal(pass[0], pass[2]) || (len(pass[0]) > 0) != (len(pass[1]) == 1) || (len(pass[1]) == 1 && pass[1][0] != pass[0][0]) {
			r.Violate("unary", "C09/Iter/same-iterator-run-again-differs", c, fmt.Sprintf("%v", pass[0]), fmt.Sprintf("abandoned run %v, third run %v", pass[1], pass[2]))
		}
		// print -> parse round trip (claimed for clean fields only)
		clean := true
		for _, x := range e.elems(want) {
			clean = clean && rsClean(x)
		}
		if clean {
			p := ociauth.ParseScope(s.String())
			pm, _ := e.observe(p)
			if !p.Equal(s) || !s.Equal(p) || pm != want {
				r.Violate("unary", "C09/roundtrip/"+e.diff(want, pm), c, "ParseScope(s.String()) equal to s", fmt.Sprintf("text %q parsed to %s", s.String(), e.names(pm)))
			}
			if p2 := ociauth.ParseScope(s.Canonical().String()); !p2.Equal(s) {
				r.Violate("unary", "C09/roundtrip-canonical", c, "ParseScope(s.Canonical().String()) equal to s", fmt.Sprintf("text %q", s.Canonical().String()))
			}
		}
	})
}

// cleanMask: every field of every element is non-empty and free of separators.
func (e *c09Env) cleanMask(m uint32) bool {
	return m&e.dirty == 0
}

func (e *c09Env) diffLen(want uint32, n int) string {
	if n > bits.OnesCount32(want) {
		return "too-large"
	}
	return "too-small"
}

func permute(xs []rs, f func([]rs)) {
	var rec func(k int)
	rec = func(k int) {
		if k == len(xs) {
			f(xs)
			return
		}
		for i := k; i < len(xs); i++ {
			xs[k], xs[i] = xs[i], xs[k]
			rec(k + 1)
			xs[k], xs[i] = xs[i], xs[k]
		}
	}
	rec(0)
}

func c09Check(r *vcore.Run) vcore.Coverage {
	n := 10
	if r.Thorough() {
		n = 14
	}
	e := newC09Env(n)
	nsets := uint32(1) << n
	var evals, nontrivial int64
	e.runSets(r, nil, &evals, &nontrivial)
	// further universes, explored the same way (every subset by every construction route, pairs as stated)
	// (a) words that look like wildcards: the bare word "*" is an ordinary opaque scope, "*" as a repository
	// name or resource type is an ordinary name
	star := newC09EnvAlt([]rs{{ResourceType: "*"}, {ResourceType: "repository", Resource: "a", Action: "pull"}, {ResourceType: "registry", Resource: "catalog", Action: "*"},
		{ResourceType: "*", Resource: "*", Action: "*"}, {ResourceType: "repository", Resource: "*", Action: "pull"}, {ResourceType: "registry", Resource: "*", Action: "*"}, {ResourceType: "**"}})
	star.runSets(r, nil, &evals, &nontrivial)
	// (b) many repositories: eleven repositories with pull, two of them with push as well; pairs of a
	// large scope (at least nine repositories) with a small one (at most three elements), both ways round
	var many []rs
	for i := 0; i < 11; i++ {
		many = append(many, rs{ResourceType: "repository", Resource: fmt.Sprintf("r%02d", i), Action: "pull"})
	}
	many = append(many, rs{ResourceType: "repository", Resource: "r05", Action: "push"}, rs{ResourceType: "repository", Resource: "r02", Action: "push"})
	big := newC09EnvAlt(many)
	big.runSets(r, func(a, b uint32) bool {
		la, lb := bits.OnesCount32(a&0x7ff), bits.OnesCount32(b)
		lb2, la2 := bits.OnesCount32(b&0x7ff), bits.OnesCount32(a)
		return (la >= 9 && lb <= 3) || (lb2 >= 9 && la2 <= 3)
	}, &evals, &nontrivial)
	// results are values: a later Union on the same receiver must not change an earlier result
	// (all triples over a sub-universe; receivers are private to the worker so a shared backing
	// array shows deterministically)
	// two sub-universes: the five members of the "others" list plus one repository action, and the
	// repository-shaped elements (two repositories x two actions, the catalog, one unknown action);
	// thorough: one 8-element sub-universe on top
	subs := [][]int{{4, 5, 6, 7, 8, 0}, {0, 1, 2, 9, 3, 5}}
	if r.Thorough() {
		subs = append(subs, []int{0, 1, 2, 9, 4, 5, 6, 7})
	}
	var triples int64
	for _, tIdx := range subs {
		tIdx := tIdx
		expand := func(t uint32) (m uint32) {
			for k, i := range tIdx {
				if t&(1<<k) != 0 {
					m |= 1 << i
				}
			}
			return m
		}
		tsets := uint32(1) << len(tIdx)
		tmasks := make([]uint32, tsets)
		for t := range tmasks {
			tmasks[t] = expand(uint32(t))
		}
		vcore.ParallelN(int(tsets), func(i int) {
			n := e.checkTriples(r, tmasks[i], tmasks)
			atomic.AddInt64(&triples, n)
		})
	}
	evals += triples
	r.Notes["union_triples"] = triples
	r.Notes["union_triples_subuniverses"] = subs
	r.Sample("pair", e.mkCase("pair", 0b00010011, 0b00100110, ""))
	r.Sample("universe", func() []string {
		var s []string
		for _, u := range e.u {
			s = append(s, rsText(u))
		}
		return s
	}())
	r.Assume = []string{"data values are drawn from a universe chosen from the code's branches (known/unknown actions, catalog sentinel, empty repository name, opaque word, unknown type); other strings are not explored"}
	return vcore.Coverage{Evaluations: evals, Nontrivial: nontrivial, Exhaustive: true,
		Rule:  fmt.Sprintf("all %d subsets of a %d-element universe built by every construction route, and all %d ordered pairs for Union/Contains/Equal; non-trivial pair = overlapping and neither contains the other (distinct by construction)", nsets, n, uint64(nsets)*uint64(nsets)),
		Extra: map[string]any{"universe_size": n, "subsets": nsets},
	}
}

// runSets explores one universe: every subset by every construction route with the unary laws, the
// unlimited scope against every subset, and every ordered pair (that pairFilter admits, if given).
func (e *c09Env) runSets(r *vcore.Run, pairFilter func(a, b uint32) bool, evals, nontrivial *int64) {
	n := len(e.u)
	nsets := uint32(1) << n
	e.canon = make([]ociauth.Scope, nsets)
	e.text = make([]ociauth.Scope, nsets)
	// construction routes + unary laws
	vcore.ParallelN(int(nsets), func(i int) {
		m := uint32(i)
		var ev int64
		el := e.elems(m)
		ok := !r.Guard("unary", "C09/construct", e.mkCase("construct", m, 0, "NewScope(sorted)"), func() {
			e.canon[m] = ociauth.NewScope(append([]rs(nil), el...)...)
			e.text[m] = ociauth.ParseScope(e.textOf(m))
		})
		if !ok {
			return
		}
		e.checkScope(r, e.canon[m], m, "NewScope(sorted)")
		e.checkScope(r, e.text[m], m, "ParseScope(sorted text)")
		ev += 2
		// permutations with a duplicate
		if len(el) > 0 && len(el) <= 4 {
			permute(append([]rs(nil), el...), func(p []rs) {
				for d := 0; d < len(p); d++ {
					withDup := append(append([]rs(nil), p...), p[d])
					s := ociauth.NewScope(withDup...)
					if !s.Equal(e.canon[m]) || !e.canon[m].Equal(s) {
						r.Violate("unary", "C09/NewScope/permutation-not-equal", e.mkCase("construct", m, 0, "NewScope(permuted+dup)"), "equal to sorted construction", fmt.Sprintf("%v", withDup))
					}
					e.checkScope(r, s, m, "NewScope(permuted+dup)")
					var words []string
					for _, x := range withDup {
						words = append(words, rsText(x))
					}
					ps := ociauth.ParseScope(strings.Join(words, " "))
					e.checkScope(r, ps, m, "ParseScope(permuted+dup)")
					ev += 2
				}
			})
		} else if len(el) > 4 {
			rev := append([]rs(nil), el...)
			for a, b := 0, len(rev)-1; a < b; a, b = a+1, b-1 {
				rev[a], rev[b] = rev[b], rev[a]
			}
			rev = append(rev, rev[0])
			e.checkScope(r, ociauth.NewScope(rev...), m, "NewScope(reversed+dup)")
			ev++
		}
		// comma-joined action form for repository scopes
		byRepo := map[string][]string{}
		var restWords []string
		for _, x := range el {
			if x.ResourceType == "repository" {
				byRepo[x.Resource] = append(byRepo[x.Resource], x.Action)
			} else {
				restWords = append(restWords, rsText(x))
			}
		}
		if len(byRepo) > 0 {
			var words []string
			var repos []string
			for k := range byRepo {
				repos = append(repos, k)
			}
			sort.Sort(sort.Reverse(sort.StringSlice(repos)))
			for _, k := range repos {
				words = append(words, "repository:"+k+":"+strings.Join(byRepo[k], ","))
			}
			words = append(words, restWords...)
			e.checkScope(r, ociauth.ParseScope(strings.Join(words, "  ")), m, "ParseScope(comma actions)")
			ev++
		}
		atomic.AddInt64(evals, ev)
	})
	// unlimited and zero value
	r.Guard("unary", "C09/unlimited", "unlimited", func() {
		un := ociauth.UnlimitedScope()
		var zero ociauth.Scope
		e.checkScope(r, zero, 0, "zero value")
		for m := uint32(0); m < nsets; m++ {
			s := e.canon[m]
			if !un.Contains(s) || !un.Contains(un) {
				r.Violate("unary", "C09/unlimited/Contains", e.mkCase("unlimited", m, 0, ""), "unlimited contains everything", "false")
			}
			if s.Contains(un) {
				r.Violate("unary", "C09/unlimited/contained-in-finite", e.mkCase("unlimited", m, 0, ""), "finite scope does not contain unlimited", "true")
			}
			if !s.Union(un).IsUnlimited() || !un.Union(s).IsUnlimited() {
				r.Violate("unary", "C09/unlimited/Union", e.mkCase("unlimited", m, 0, ""), "union with unlimited is unlimited", "not unlimited")
			}
			if s.Equal(un) || un.Equal(s) {
				r.Violate("unary", "C09/unlimited/Equal", e.mkCase("unlimited", m, 0, ""), "finite != unlimited", "equal")
			}
		}
		for _, u := range e.u {
			if !un.Holds(u) {
				r.Violate("unary", "C09/unlimited/Holds", rsText(u), "true", "false")
			}
		}
	})
	// all ordered pairs
	vcore.ParallelN(int(nsets), func(i int) {
		a := uint32(i)
		var ev, nt int64
		for b := uint32(0); b < nsets; b++ {
			if pairFilter != nil && !pairFilter(a, b) {
				continue
			}
			e.checkPair(r, a, b)
			ev++
			if a&b != 0 && a&^b != 0 && b&^a != 0 {
				nt++
			}
		}
		atomic.AddInt64(evals, ev)
		atomic.AddInt64(nontrivial, nt)
	})
}

func (e *c09Env) checkPair(r *vcore.Run, a, b uint32) {
	sa, sb := e.canon[a], e.canon[b]
	var c c09Case
	lazy := func() c09Case {
		if c.Op == "" {
			c = e.mkCase("pair", a, b, "")
		}
		return c
	}
	defer func() {
		if p := recover(); p != nil {
			r.Violate("pair", "C09/pair/panic", lazy(), "no panic", fmt.Sprint(p))
		}
	}()
	for variant, recv := range []ociauth.Scope{sa, e.text[a]} {
		u := recv.Union(sb)
		if got, prob := e.observe(u); got != a|b || prob != "" {
			r.Violate("pair", "C09/Union/"+e.diff(a|b, got)+prob, lazy(), e.names(a|b), e.names(got))
		} else if !u.Equal(e.canon[a|b]) || !e.canon[a|b].Equal(u) {
			r.Violate("pair", "C09/Union/not-Equal-to-direct-construction", lazy(), "Union result Equal to NewScope of the union", "not equal")
		}
		if b&^a == 0 && u.String() != recv.String() {
			r.Violate("pair", fmt.Sprintf("C09/Union/text-changed/variant=%d", variant), lazy(), fmt.Sprintf("%q", recv.String()), fmt.Sprintf("%q", u.String()))
		}
		if u.Len() != bits.OnesCount32(a|b) {
			r.Violate("pair", "C09/Union/Len", lazy(), fmt.Sprint(bits.OnesCount32(a|b)), fmt.Sprint(u.Len()))
		}
		// the text of a union result describes the union (print -> parse round trip, clean fields only)
		if e.cleanMask(a | b) {
			if pm, _ := e.observe(ociauth.ParseScope(u.String())); pm != a|b {
				r.Violate("pair", fmt.Sprintf("C09/Union/text-of-result-is-not-the-union/variant=%d", variant), lazy(), e.names(a|b), fmt.Sprintf("text %q parses to %s", u.String(), e.names(pm)))
			}
		}
	}
	if got := sa.Contains(sb); got != (b&^a == 0) {
		kind := "false-positive/b-minus-a=" + e.names(b&^a)
		if !got {
			kind = "false-negative"
		}
		r.Violate("pair", "C09/Contains/"+kind, lazy(), fmt.Sprint(b&^a == 0), fmt.Sprint(got))
	}
	if got := e.text[a].Contains(e.text[b]); got != (b&^a == 0) {
		r.Violate("pair", "C09/Contains/parsed-operands", lazy(), fmt.Sprint(b&^a == 0), fmt.Sprint(got))
	}
	if got := sa.Equal(sb); got != (a == b) {
		r.Violate("pair", "C09/Equal/"+e.names(a^b), lazy(), fmt.Sprint(a == b), fmt.Sprint(got))
	}
}

// checkTriples: for receiver set a (built three ways, privately), every b and c:
// u1 = A.Union(B); u2 = A.Union(C); then u1, u2 and A must still be a|b, a|c and a.
func (e *c09Env) checkTriples(r *vcore.Run, a uint32, tmasks []uint32) (n int64) {
	el := e.elems(a)
	half := len(el) / 2
	recvs := []ociauth.Scope{
		ociauth.NewScope(append([]rs(nil), el...)...),
		ociauth.ParseScope(e.textOf(a)),
		ociauth.NewScope(append([]rs(nil), el[:half]...)...).Union(ociauth.NewScope(append([]rs(nil), el[half:]...)...)),
	}
	routes := []string{"NewScope", "ParseScope", "Union-built"}
	bad := false
	for _, b := range tmasks {
		for _, c := range tmasks {
			if bad {
				return n
			}
			for v, recv := range recvs {
				n++
				cs := e.mkCaseLazy("triple", a, b, routes[v], c)
				func() {
					defer func() {
						if p := recover(); p != nil {
							bad = true
							r.Violate("triple", "C09/triple/panic", cs(), "no panic", fmt.Sprint(p))
						}
					}()
					u1 := recv.Union(e.canon[b])
					u2 := recv.Union(e.canon[c])
					g1, p1 := e.observe(u1)
					g2, p2 := e.observe(u2)
					g0, p0 := e.observe(recv)
					if g1 != a|b || p1 != "" {
						bad = true
						r.Violate("triple", "C09/Union/earlier-result-changed-by-later-union/"+routes[v], cs(), e.names(a|b), e.names(g1)+p1)
					}
					if g2 != a|c || p2 != "" {
						bad = true
						r.Violate("triple", "C09/Union/second-union-from-same-receiver-wrong/"+routes[v], cs(), e.names(a|c), e.names(g2)+p2)
					}
					if g0 != a || p0 != "" {
						bad = true
						r.Violate("triple", "C09/Union/receiver-changed/"+routes[v], cs(), e.names(a), e.names(g0)+p0)
					}
					if u1.Equal(u2) != (a|b == a|c) {
						bad = true
						r.Violate("triple", "C09/Union/results-Equal-wrong/"+routes[v], cs(), fmt.Sprint(a|b == a|c), fmt.Sprint(u1.Equal(u2)))
					}
				}()
			}
		}
	}
	return n
}

type c09Triple struct {
	c09Case
	C  []string `json:"c"`
	MC uint32   `json:"mask_c"`
}

// mkCaseLazy defers building the (allocation-heavy) case description until a violation needs it.
func (e *c09Env) mkCaseLazy(op string, a, b uint32, route string, c uint32) func() any {
	return func() any {
		t := c09Triple{c09Case: e.mkCase(op, a, b, route), MC: c}
		for _, x := range e.elems(c) {
			t.C = append(t.C, rsText(x))
		}
		return t
	}
}

func c09Replay(r *vcore.Run, sub string, raw json.RawMessage) {
	var c c09Case
	if json.Unmarshal(raw, &c) != nil || c.N == 0 {
		fmt.Println("replay: case has no masks; re-run the check")
		return
	}
	e := newC09Env(min(c.N, len(c09UniverseFull)))
	if len(c.U) > 0 {
		e = newC09EnvOf(c.U)
		c.N = len(c.U)
	}
	nsets := uint32(1) << c.N
	e.canon = make([]ociauth.Scope, nsets)
	e.text = make([]ociauth.Scope, nsets)
	for m := uint32(0); m < nsets; m++ {
		e.canon[m] = ociauth.NewScope(e.elems(m)...)
		e.text[m] = ociauth.ParseScope(e.textOf(m))
	}
	if sub == "triple" {
		all := make([]uint32, nsets)
		for i := range all {
			all[i] = uint32(i)
		}
		e.checkTriples(r, c.MA, all)
	} else if sub == "pair" {
		e.checkPair(r, c.MA, c.MB)
	} else {
		e.checkScope(r, e.canon[c.MA], c.MA, "NewScope(sorted)")
		e.checkScope(r, e.text[c.MA], c.MA, "ParseScope(sorted text)")
	}
}
