package props

import (
	"bytes"
	"context"
	"fmt"
	"sort"
	"strings"

	"cuelabs.dev/go/oci/ociregistry"
	"cuelabs.dev/go/oci/ociregistry/ocimem"
	"cuelabs.dev/go/oci/ociregistry/ociunify"

	"verif/vcore"
)

// Referrers listings through the unifier: members hold subsets of three
// referrers of one subject and may deliver them in any order (the Lister
// interface promises no order for Referrers); the union must be complete,
// duplicate-free and sorted by digest whatever order the members used.

type c15RefCase struct {
	M0      int    `json:"member0_subset"`
	M1      int    `json:"member1_subset"`
	Order0  string `json:"member0_order"`
	Order1  string `json:"member1_order"`
	Policy  string `json:"policy"`
	Subject string `json:"subject"`
}

// orderedMember delivers Referrers in a chosen order.
type orderedMember struct {
	ociregistry.Interface
	order string // "asc" (ocimem's own), "desc", "rot" (rotated by one)
}

func (m orderedMember) Referrers(ctx context.Context, repo string, d ociregistry.Digest, at string) ociregistry.Seq[ociregistry.Descriptor] {
	items, err := ociregistry.All(m.Interface.Referrers(ctx, repo, d, at))
	switch m.order {
	case "desc":
		for i, j := 0, len(items)-1; i < j; i, j = i+1, j-1 {
			items[i], items[j] = items[j], items[i]
		}
	case "rot":
		if len(items) > 1 {
			items = append(items[1:], items[0])
		}
	}
	return func(yield func(ociregistry.Descriptor, error) bool) {
		for _, it := range items {
			if !yield(it, nil) {
				return
			}
		}
		if err != nil {
			yield(ociregistry.Descriptor{}, err)
		}
	}
}

func c15RefBuild(u *universe, subset int) (*ocimem.Registry, ociregistry.Descriptor, []ociregistry.Digest) {
	ctx := context.Background()
	reg := ocimem.New()
	for _, b := range u.Blobs[1:] {
		if _, err := reg.PushBlob(ctx, "r", descOf(mtOctet, b), bytes.NewReader(b)); err != nil {
			panic(err)
		}
	}
	mo := u.Manifests[0]
	subj, err := reg.PushManifest(ctx, "r", "", mo.Data, mo.MediaType)
	if err != nil {
		panic(err)
	}
	b1, b2 := descOf(mtOctet, u.Blobs[1]), descOf(mtOctet, u.Blobs[2])
	bodies := [][]byte{
		c15Image(b1, nil, &subj),
		c15Image(b2, nil, &subj),
		c15Image(b1, []ociregistry.Descriptor{b2}, &subj),
	}
	var digs []ociregistry.Digest
	for i, body := range bodies {
		if subset&(1<<i) == 0 {
			continue
		}
		d, err := reg.PushManifest(ctx, "r", "", body, mtImage)
		if err != nil {
			panic(err)
		}
		digs = append(digs, d.Digest)
	}
	return reg, subj, digs
}

func c15Image(config ociregistry.Descriptor, layers []ociregistry.Descriptor, subject *ociregistry.Descriptor) []byte {
	if layers == nil {
		layers = []ociregistry.Descriptor{}
	}
	type man struct {
		SchemaVersion int                      `json:"schemaVersion"`
		MediaType     string                   `json:"mediaType"`
		Config        ociregistry.Descriptor   `json:"config"`
		Layers        []ociregistry.Descriptor `json:"layers"`
		Subject       *ociregistry.Descriptor  `json:"subject,omitempty"`
	}
	return mustJSON(man{2, mtImage, config, layers, subject})
}

func c15CheckReferrers(r *vcore.Run, u *universe) (n int64) {
	orders := []string{"asc", "desc", "rot"}
	for s0 := 0; s0 < 8; s0++ {
		for s1 := 0; s1 < 8; s1++ {
			for _, o0 := range orders {
				for _, o1 := range orders {
					for pi, pol := range []ociunify.ReadPolicy{ociunify.ReadSequential, ociunify.ReadConcurrent} {
						n++
						m0, subj, d0 := c15RefBuild(u, s0)
						m1, _, d1 := c15RefBuild(u, s1)
						c := c15RefCase{M0: s0, M1: s1, Order0: o0, Order1: o1, Policy: []string{"sequential", "concurrent"}[pi], Subject: string(subj.Digest)}
						want := map[string]bool{}
						for _, d := range append(append([]ociregistry.Digest(nil), d0...), d1...) {
							want[string(d)] = true
						}
						var wantList []string
						for d := range want {
							wantList = append(wantList, d)
						}
						sort.Strings(wantList)
						reg := ociunify.New(orderedMember{m0, o0}, orderedMember{m1, o1}, &ociunify.Options{ReadPolicy: pol})
						r.Guard("referrers", "C15/Referrers", c, func() {
							items, err := ociregistry.All(reg.Referrers(context.Background(), "r", subj.Digest, ""))
							var got []string
							for _, it := range items {
								got = append(got, string(it.Digest))
							}
							switch {
							case err != nil:
								r.Violate("referrers", "C15/Referrers/error", c, "no error", err.Error())
							case !sort.StringsAreSorted(got) && c15SameSet(got, wantList):
								r.Violate("referrers", "C15/Referrers/union-not-sorted", c, short(wantList), short(got))
							case strings.Join(got, ",") != strings.Join(wantList, ","):
								kind := "union-differs"
								if len(got) > len(wantList) {
									kind = "duplicates-or-extra"
								}
								r.Violate("referrers", "C15/Referrers/"+kind, c, short(wantList), short(got))
							}
						})
					}
				}
			}
		}
	}
	return n
}

func c15SameSet(a, b []string) bool {
	x, y := append([]string(nil), a...), append([]string(nil), b...)
	sort.Strings(x)
	sort.Strings(y)
	return strings.Join(x, ",") == strings.Join(y, ",")
}

func short(ds []string) string {
	var out []string
	for _, d := range ds {
		if len(d) > 19 {
			d = d[7:19]
		}
		out = append(out, d)
	}
	return fmt.Sprint(out)
}
