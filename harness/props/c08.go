package props

import (
	"context"
	"encoding/json"
	"fmt"
	"os"
	"os/exec"
	"regexp"
	"sort"
	"strings"
	"sync"
	"time"

	"cuelabs.dev/go/oci/ociregistry"
	"cuelabs.dev/go/oci/ociregistry/ocifilter"
	"cuelabs.dev/go/oci/ociregistry/ocimem"

	"verif/vcore"
	"verif/vsched"
)

// C08: ocimem is race-free and linearizable. E1 twice over the same harness
// bodies: (i) channel parker + linearizability against the reference model on
// every explored schedule; (ii) futex ("invisible") parker in a -race build,
// so that the race detector judges every explored schedule.

func init() {
	vcore.Register(&vcore.Prop{ID: "C08", Level: "model_checking", Engine: "E1-sched", Check: c08Check, Replay: c08Replay})
}

type cOp struct {
	Op *Op    `json:"op,omitempty"`
	Q  *Query `json:"q,omitempty"`
}

func (c cOp) String() string {
	if c.Op != nil {
		return c.Op.String()
	}
	return c.Q.String()
}

type c08Harness struct {
	Name      string  `json:"name"`
	Immutable bool    `json:"immutable_tags"`
	HTTP      bool    `json:"through_ociserver"`
	Prologue  []Op    `json:"prologue"`
	Threads   [][]cOp `json:"threads"`
	Schedule  []int32 `json:"schedule,omitempty"`
	Prop      string  `json:"prop,omitempty"` // property the harness is run for ("" = C08)
	// Oracle names a built-in verdict used instead of the linearizability search:
	// "one-session-per-id": every thread opens the session "xid" of repository r at offset 0 and writes one
	// byte through its own handle. There is one session: exactly one of those writes lands, and the
	// session then holds exactly that byte.
	// "one-client-writer": the threads write through one shared ociclient writer value (the prologue's
	// session, opened over HTTP against a registry whose minimum chunk size is MinChunk). The client
	// serialises them: every write succeeds, and after Close the session holds the pieces, each whole,
	// in one of the two orders.
	// "nothing-deleted-through-immutable": the threads work through ocifilter.Immutable over a mutable
	// ocimem. Whatever the overlap (the wrapper documents a window in which a tag pushed twice at once may
	// be seen to move; that is not judged), no deletion reaches the registry underneath and everything
	// the prologue stored - every manifest, every tag binding - is still there afterwards.
	Oracle   string `json:"oracle,omitempty"`
	MinChunk int    `json:"registry_min_chunk,omitempty"`
}

func (h c08Harness) prop() string {
	if h.Prop != "" {
		return h.Prop
	}
	return "C08"
}

type c08Event struct {
	Thread, Index int
	Inv, Res      int64
	Op            cOp
	Out           Outcome
	Obs           Obs
}

var c08Seq int64

//go:norace
func c08NextSeq() int64 {
	c08Seq++
	return c08Seq
}

type c08Exec struct {
	h        c08Harness
	u        *universe
	reg      ociregistry.Interface
	mem      *ocimem.Registry
	model0   *Model // model after the prologue
	events   [][]c08Event
	final    []Obs
	hands    []ociregistry.BlobWriter
	panicMsg string
	spy      *idSpy
	del      *delSpy
}

// delSpy notes every deletion that reaches the registry underneath a wrapper.
type delSpy struct {
	ociregistry.Interface
	mu    sync.Mutex
	calls []string
}

func (d *delSpy) note(s string) {
	d.mu.Lock()
	d.calls = append(d.calls, s)
	d.mu.Unlock()
}
func (d *delSpy) DeleteBlob(ctx context.Context, repo string, dig ociregistry.Digest) error {
	d.note("DeleteBlob " + repo + " " + string(dig))
	return d.Interface.DeleteBlob(ctx, repo, dig)
}
func (d *delSpy) DeleteManifest(ctx context.Context, repo string, dig ociregistry.Digest) error {
	d.note("DeleteManifest " + repo + " " + string(dig))
	return d.Interface.DeleteManifest(ctx, repo, dig)
}
func (d *delSpy) DeleteTag(ctx context.Context, repo string, tag string) error {
	d.note("DeleteTag " + repo + " " + tag)
	return d.Interface.DeleteTag(ctx, repo, tag)
}

// idSpy notes the ID under which the backend opened its (one) upload session.
type idSpy struct {
	ociregistry.Interface
	id       string
	mu       sync.Mutex
	accepted []byte
}

func (s *idSpy) PushBlobChunked(ctx context.Context, repo string, chunk int) (ociregistry.BlobWriter, error) {
	w, err := s.Interface.PushBlobChunked(ctx, repo, chunk)
	if err == nil {
		s.id = w.ID()
		return &spyWriter{BlobWriter: w, s: s}, nil
	}
	return w, err
}

func (s *idSpy) PushBlobChunkedResume(ctx context.Context, repo, id string, off int64, chunk int) (ociregistry.BlobWriter, error) {
	w, err := s.Interface.PushBlobChunkedResume(ctx, repo, id, off, chunk)
	if err == nil {
		return &spyWriter{BlobWriter: w, s: s}, nil
	}
	return w, err
}

// spyWriter notes the bytes the backend accepted, in the order its Write calls returned.
type spyWriter struct {
	ociregistry.BlobWriter
	s *idSpy
}

func (w *spyWriter) Write(p []byte) (int, error) {
	n, err := w.BlobWriter.Write(p)
	if err == nil {
		w.s.mu.Lock()
		w.s.accepted = append(w.s.accepted, p[:n]...)
		w.s.mu.Unlock()
	}
	return n, err
}

func (e *c08Exec) body(s *vsched.Sched) {
	e.u = newUniverse()
	e.mem = ocimem.NewWithConfig(&ocimem.Config{ImmutableTags: e.h.Immutable})
	e.reg = e.mem
	if e.h.HTTP {
		e.reg, _ = httpStack(e.mem, nil, nil)
	}
	if e.h.Oracle == "nothing-deleted-through-immutable" {
		e.del = &delSpy{Interface: e.mem}
		e.reg = ocifilter.Immutable(e.del)
	}
	if e.h.Oracle == "one-client-writer" {
		// the registry's writers report a tiny minimum chunk size, so that a write of a few bytes is a request
		e.spy = &idSpy{Interface: smallChunk{e.mem, e.h.MinChunk}}
		e.reg, _ = httpStack(e.spy, nil, nil)
	}
	pro := &regSys{u: e.u, reg: e.reg, model: NewModel(e.h.Immutable), ctx: context.Background()}
	if e.h.Oracle == "one-client-writer" {
		pro.hint = 1 // the client then works with the registry's minimum
	}
	pro.model.HEADResolves = e.h.HTTP
	for _, op := range e.h.Prologue {
		out := pro.exec(op)
		pro.model.Advance(e.u, op, out.OK)
	}
	e.model0 = pro.model
	e.hands = pro.handles
	c08Seq = 0
	e.events = make([][]c08Event, len(e.h.Threads))
	for ti := range e.h.Threads {
		ti := ti
		prog := e.h.Threads[ti]
		e.events[ti] = make([]c08Event, 0, len(prog))
		// a positive chunk-size hint, as ociserver passes for every PATCH/PUT with a body
		view := &regSys{u: e.u, reg: e.reg, model: e.model0, ctx: context.Background(), handles: append([]ociregistry.BlobWriter(nil), pro.handles...), hint: 4096}
		// Handle identity: every thread starts with the prologue's handles (shared objects, writer 0);
		// a Resume made by a thread yields a handle only that thread holds. Operations that do not name
		// a writer explicitly are attributed accordingly, so that the model's per-handle start-offset
		// check follows the handle that was really used.
		curW := 0
		prog = append([]cOp(nil), prog...)
		for i, o := range prog {
			if o.Op == nil || o.Op.W != 0 {
				continue
			}
			c := *o.Op
			if c.K == "Resume" {
				curW = 100 + ti
			}
			c.W = curW
			prog[i].Op = &c
		}
		s.Go(fmt.Sprintf("T%d", ti), func() {
			for i, op := range prog {
				ev := c08Event{Thread: ti, Index: i, Op: op, Inv: c08NextSeq()}
				if op.Op != nil {
					ev.Out = view.exec(*op.Op)
				} else {
					q := *op.Q
					q.Once = true // other threads are running: a second traversal would be a second operation
					ev.Obs = runQuery(view.ctx, view.reg, q)
				}
				ev.Res = c08NextSeq()
				e.events[ti] = append(e.events[ti], ev)
			}
		})
	}
	// thread 0 ends here; the epilogue runs on the driver after all threads have finished
}

func (e *c08Exec) epilogue() {
	for _, q := range sweepQueries(e.u, []string{"r", "s"}) {
		if q.K == "GetBlobRange" {
			continue
		}
		e.final = append(e.final, runQuery(context.Background(), e.reg, q))
	}
	// committed uploads: stored content must hash to its digest (covered by CheckObs on GetBlob)
}

// oneSessionPerID is the verdict of the "one-session-per-id" harnesses (see c08Harness.Oracle).
// verdict applies the harness's oracle.
func (e *c08Exec) verdict() (bool, string) {
	if e.h.Oracle == "one-session-per-id" {
		return e.oneSessionPerID()
	}
	if e.h.Oracle == "one-client-writer" {
		return e.oneClientWriter()
	}
	if e.h.Oracle == "nothing-deleted-through-immutable" {
		if len(e.del.calls) > 0 {
			return false, "deletions reached the registry underneath the immutable wrapper: " + strings.Join(e.del.calls, "; ")
		}
		ctx := context.Background()
		for name, mr := range e.model0.Repos {
			for d := range mr.Mans {
				if _, err := e.mem.ResolveManifest(ctx, name, d); err != nil {
					return false, fmt.Sprintf("manifest %s of %s, stored before the threads started, is gone: %v", d, name, err)
				}
			}
			for t, want := range mr.Tags {
				if got, err := e.mem.ResolveTag(ctx, name, t); err != nil || got.Digest != want.Digest {
					return false, fmt.Sprintf("tag %s of %s, bound to %s before the threads started, now gives %s %v", t, name, want.Digest, got.Digest, err)
				}
			}
		}
		return true, ""
	}
	return e.linearizable()
}

func (e *c08Exec) oneClientWriter() (bool, string) {
	var pieces, texts []string
	for _, t := range e.events {
		for _, ev := range t {
			texts = append(texts, fmt.Sprintf("T%d %s -> ok=%v %s %s", ev.Thread, ev.Op.String(), ev.Out.OK, ev.Out.Code, ev.Out.Err))
			if !ev.Out.OK {
				return false, "a write through the shared writer failed: " + strings.Join(texts, "; ")
			}
			pieces = append(pieces, ev.Op.Op.Piece)
		}
	}
	total := strings.Join(pieces, "")
	if got := e.hands[0].Size(); got != int64(len(total)) {
		return false, fmt.Sprintf("the writer reports size %d after writes of %d bytes: %s", got, len(total), strings.Join(texts, "; "))
	}
	if err := e.hands[0].Close(); err != nil {
		return false, "Close of the shared writer: " + err.Error() + ": " + strings.Join(texts, "; ")
	}
	ctx := context.Background()
	w, err := e.mem.PushBlobChunkedResume(ctx, "r", e.spy.id, -1, 0)
	if err != nil {
		return false, "the backend session cannot be resumed afterwards: " + err.Error()
	}
	if w.Size() != int64(len(total)) {
		return false, fmt.Sprintf("the backend session holds %d bytes after successful writes of %d: %s", w.Size(), len(total), strings.Join(texts, "; "))
	}
	// the content is one of the two orders of the whole pieces
	got := string(e.spy.accepted)
	if got != pieces[0]+pieces[1] && got != pieces[1]+pieces[0] {
		return false, fmt.Sprintf("the backend accepted %q, which is neither %q nor %q: %s", got, pieces[0]+pieces[1], pieces[1]+pieces[0], strings.Join(texts, "; "))
	}
	if _, err := w.Commit(sha256Digest([]byte(got))); err != nil {
		return false, fmt.Sprintf("the backend accepted %q but the session does not commit as that: %v", got, err)
	}
	return true, ""
}

func (e *c08Exec) oneSessionPerID() (bool, string) {
	okWrites, total := 0, 0
	var texts []string
	for _, t := range e.events {
		for _, ev := range t {
			if ev.Op.Op != nil && ev.Op.Op.K == "Write" {
				total++
				if ev.Out.OK {
					okWrites++
				}
				texts = append(texts, fmt.Sprintf("T%d %s -> ok=%v %s", ev.Thread, ev.Op.String(), ev.Out.OK, ev.Out.Code))
			}
		}
	}
	w, err := e.mem.PushBlobChunkedResume(context.Background(), "r", "xid", -1, 0)
	if err != nil {
		return false, "the session cannot be resumed afterwards: " + err.Error()
	}
	size := w.Size()
	if okWrites != 1 || size != 1 {
		return false, fmt.Sprintf("%d of %d one-byte writes at offset 0 were accepted and the session holds %d bytes (one session: exactly one write lands): %s", okWrites, total, size, strings.Join(texts, "; "))
	}
	return true, ""
}

// linearizable searches for a total order respecting real-time precedence
// that the sequential reference model accepts, including the final sweep.
func (e *c08Exec) linearizable() (bool, string) {
	var all []c08Event
	for _, t := range e.events {
		all = append(all, t...)
	}
	n := len(all)
	used := make([]bool, n)
	var order []int
	var lastFail string
	var rec func(m *Model, placed int) bool
	rec = func(m *Model, placed int) bool {
		if placed == n {
			for _, o := range e.final {
				if mism := m.CheckObs(e.u, o); mism != "" {
					lastFail = fmt.Sprintf("order %v: final state: %s: %s", order, o.Q, mism)
					return false
				}
			}
			return true
		}
		for i := 0; i < n; i++ {
			if used[i] {
				continue
			}
			// real-time: every op that finished before all[i] was invoked must already be placed
			ok := true
			for j := 0; j < n; j++ {
				if !used[j] && j != i && all[j].Res < all[i].Inv {
					ok = false
					break
				}
			}
			if !ok {
				continue
			}
			ev := all[i]
			m2 := m.Clone()
			if ev.Op.Op != nil {
				pred := m2.Predict(e.u, *ev.Op.Op)
				if mism := pred.Check(ev.Out); mism != "" {
					lastFail = fmt.Sprintf("order %v then %s: %s", order, ev.Op, mism)
					continue
				}
				m2.Advance(e.u, *ev.Op.Op, ev.Out.OK)
			} else if mism := m2.CheckObs(e.u, ev.Obs); mism != "" {
				lastFail = fmt.Sprintf("order %v then %s: %s", order, ev.Op, mism)
				continue
			}
			used[i] = true
			order = append(order, i)
			if rec(m2, placed+1) {
				return true
			}
			order = order[:len(order)-1]
			used[i] = false
		}
		return false
	}
	if rec(e.model0.Clone(), 0) {
		return true, ""
	}
	var sb strings.Builder
	for _, ev := range all {
		if ev.Op.Op != nil {
			fmt.Fprintf(&sb, "T%d[%d..%d] %s -> ok=%v [%s]; ", ev.Thread, ev.Inv, ev.Res, ev.Op, ev.Out.OK, ev.Out.Code)
		} else {
			fmt.Fprintf(&sb, "T%d[%d..%d] %s; ", ev.Thread, ev.Inv, ev.Res, ev.Obs.Text())
		}
	}
	return false, "no linearization; history: " + sb.String() + " | last rejection: " + lastFail
}

func qp(q Query) *Query { return &q }
func op(o Op) *Op       { return &o }

var (
	c08Seed = []Op{{K: "PushBlob", Repo: "r", B: 1}, {K: "PushBlob", Repo: "r", B: 2}, {K: "PushManifest", Repo: "r", M: 0, Tag: "t"},
		{K: "Start", Repo: "r"}, {K: "Write", H: 0, Piece: "ab"}}
)

func c08Directed(u *universe) []c08Harness {
	digM0 := string(sha256Digest(u.Manifests[0].Data))
	digB1 := string(sha256Digest(u.Blobs[1]))
	_ = digM0
	hs := []c08Harness{
		{Name: "H1-tag-retarget-vs-GetTag", Prologue: c08Seed, Threads: [][]cOp{
			{{Q: qp(Query{K: "GetTag", Repo: "r", Tag: "t"})}},
			{{Op: op(Op{K: "PushManifest", Repo: "r", M: 1, Tag: "t"})}, {Op: op(Op{K: "DeleteManifest", Repo: "r", M: 0})}},
		}},
		{Name: "H2-commit-vs-write", Prologue: c08Seed, Threads: [][]cOp{
			{{Op: op(Op{K: "Commit", H: 0, Off: "explicit", Piece: "ab"})}},
			{{Op: op(Op{K: "Resume", H: 0, Off: "-1", W: 2})}, {Op: op(Op{K: "Write", H: 0, Piece: "c", W: 2})}},
		}},
		{Name: "H3-two-resumers", Prologue: c08Seed, Threads: [][]cOp{
			{{Op: op(Op{K: "Resume", H: 0, Off: "num", N: 2, W: 1})}, {Op: op(Op{K: "Write", H: 0, Piece: "c", W: 1})}},
			{{Op: op(Op{K: "Resume", H: 0, Off: "num", N: 2, W: 2})}, {Op: op(Op{K: "Write", H: 0, Piece: "d", W: 2})}},
		}},
		{Name: "H4-delete-vs-mount-vs-read", Prologue: c08Seed, Threads: [][]cOp{
			{{Op: op(Op{K: "DeleteBlob", Repo: "r", B: 1})}},
			{{Op: op(Op{K: "Mount", From: "r", Repo: "s", B: 1})}},
			{{Q: qp(Query{K: "GetBlob", Repo: "r", Dig: digB1, What: "b1"})}, {Q: qp(Query{K: "GetBlob", Repo: "s", Dig: digB1, What: "b1"})}},
		}},
		{Name: "H5-tagged-push-vs-delete-of-referenced-blob", Immutable: true, Prologue: c08Seed[:2], Threads: [][]cOp{
			{{Op: op(Op{K: "PushManifest", Repo: "r", M: 1, Tag: "t"})}},
			{{Op: op(Op{K: "DeleteBlob", Repo: "r", B: 1})}},
		}},
		{Name: "H5b-two-pushers-one-tag", Immutable: true, Prologue: c08Seed[:2], Threads: [][]cOp{
			{{Op: op(Op{K: "PushManifest", Repo: "r", M: 0, Tag: "t"})}, {Q: qp(Query{K: "ResolveTag", Repo: "r", Tag: "t"})}},
			{{Op: op(Op{K: "PushManifest", Repo: "r", M: 1, Tag: "t"})}, {Q: qp(Query{K: "GetTag", Repo: "r", Tag: "t"})}},
		}},
		{Name: "H6-listing-vs-push-delete", Prologue: c08Seed, Threads: [][]cOp{
			{{Q: qp(Query{K: "Tags", Repo: "r"})}, {Q: qp(Query{K: "Repositories"})}},
			{{Op: op(Op{K: "PushManifest", Repo: "r", M: 0, Tag: "u"})}, {Op: op(Op{K: "DeleteTag", Repo: "r", Tag: "t"})}},
			{{Op: op(Op{K: "PushBlob", Repo: "s", B: 1})}},
		}},
	}
	digAB := string(sha256Digest([]byte("ab")))
	committed := append(append([]Op(nil), c08Seed...), Op{K: "Commit", H: 0, Off: "explicit", Piece: "ab"})
	hs = append(hs,
		c08Harness{Name: "H7-concurrent-first-reads-of-chunk-committed-blob", Prologue: committed, Threads: [][]cOp{
			{{Q: qp(Query{K: "GetBlob", Repo: "r", Dig: digAB, What: "ab"})}},
			{{Q: qp(Query{K: "ResolveBlob", Repo: "r", Dig: digAB, What: "ab"})}, {Op: op(Op{K: "Mount", From: "r", Repo: "s", B: 1})}},
			{{Q: qp(Query{K: "GetBlobRange", Repo: "r", Dig: digAB, O0: 1, O1: -1, What: "ab"})}},
		}},
		c08Harness{Name: "H8-cancel-vs-commit-vs-read", Prologue: c08Seed, Threads: [][]cOp{
			{{Op: op(Op{K: "Commit", H: 0, Off: "explicit", Piece: "ab"})}, {Q: qp(Query{K: "GetBlob", Repo: "r", Dig: digAB, What: "ab"})}},
			{{Op: op(Op{K: "Cancel", H: 0})}, {Op: op(Op{K: "Resume", H: 0, Off: "zero", W: 2})}, {Op: op(Op{K: "Write", H: 0, Piece: "ZZ", W: 2})}},
		}},
	)
	hs = append(hs,
		// a commit retried concurrently (e.g. a re-sent final PUT): whoever is told "committed" can read the blob
		c08Harness{Name: "H9-two-committers-and-a-reader", Prologue: c08Seed, Threads: [][]cOp{
			{{Op: op(Op{K: "Commit", H: 0, Off: "explicit", Piece: "ab"})}},
			{{Op: op(Op{K: "Commit", H: 0, Off: "explicit", Piece: "ab"})}, {Q: qp(Query{K: "GetBlob", Repo: "r", Dig: digAB, What: "ab"})}},
		}},
		c08Harness{Name: "H10-two-committers-vs-cancel", Prologue: c08Seed, Threads: [][]cOp{
			{{Op: op(Op{K: "Commit", H: 0, Off: "explicit", Piece: "ab"})}},
			{{Op: op(Op{K: "Commit", H: 0, Off: "explicit", Piece: "ab"})}, {Q: qp(Query{K: "ResolveBlob", Repo: "r", Dig: digAB, What: "ab"})}},
			{{Op: op(Op{K: "Cancel", H: 0})}},
		}},
	)
	startX := func() []cOp {
		return []cOp{{Op: op(Op{K: "Start", Repo: "r", Off: "id", Piece: "xid"})}, {Op: op(Op{K: "Write", H: 1, Piece: "z"})}}
	}
	hs = append(hs,
		// the same caller-chosen upload ID opened for the first time by several threads at once
		c08Harness{Name: "H11-first-use-of-one-upload-id-by-two-threads", Prologue: c08Seed, Oracle: "one-session-per-id", Threads: [][]cOp{startX(), startX()}},
	)
	// a referrers listing obtained and consumed while the referrer is deleted and pushed again
	digM0 = string(sha256Digest(u.Manifests[0].Data))
	refPro := []Op{{K: "PushBlob", Repo: "r", B: 1}, {K: "PushManifest", Repo: "r", M: 0}, {K: "PushManifest", Repo: "r", M: 2}}
	hs = append(hs, c08Harness{Name: "H13-referrers-listing-vs-delete-and-repush-of-the-referrer", Prologue: refPro, Threads: [][]cOp{
		{{Q: qp(Query{K: "Referrers", Repo: "r", Dig: digM0, What: "mo"})}, {Q: qp(Query{K: "Referrers", Repo: "r", Dig: digM0, What: "mo"})}},
		{{Op: op(Op{K: "DeleteManifest", Repo: "r", M: 2})}, {Op: op(Op{K: "PushManifest", Repo: "r", M: 2})}},
	}})
	for _, k := range []int{1, 3} {
		hs = append(hs, c08Harness{Name: fmt.Sprintf("H12-two-writes-through-one-client-writer/min-chunk-%d", k), Oracle: "one-client-writer", MinChunk: k,
			Prologue: []Op{{K: "Start", Repo: "r"}}, Threads: [][]cOp{
				{{Op: op(Op{K: "Write", H: 0, Piece: "abcd"})}},
				{{Op: op(Op{K: "Write", H: 0, Piece: "e"})}},
			}})
	}
	// the first three again through ociclient -> ociserver (requests are served concurrently over one registry)
	for _, h := range []c08Harness{hs[0], hs[3], hs[6]} {
		h.Name += "/http"
		h.HTTP = true
		if len(h.Threads) == 3 && strings.HasPrefix(h.Name, "H6") {
			h.Threads = h.Threads[:2] // PushBlob over HTTP is two requests; keep the harness to single-request operations
		}
		hs = append(hs, h)
	}
	return hs
}

func c08Alphabet(u *universe) []cOp {
	digB1 := string(sha256Digest(u.Blobs[1]))
	return []cOp{
		{Op: op(Op{K: "PushBlob", Repo: "r", B: 1})},
		{Op: op(Op{K: "DeleteBlob", Repo: "r", B: 1})},
		{Op: op(Op{K: "PushManifest", Repo: "r", M: 0, Tag: "t"})},
		{Op: op(Op{K: "PushManifest", Repo: "r", M: 1, Tag: "t"})},
		{Op: op(Op{K: "DeleteManifest", Repo: "r", M: 0})},
		{Op: op(Op{K: "DeleteTag", Repo: "r", Tag: "t"})},
		{Op: op(Op{K: "Mount", From: "r", Repo: "s", B: 1})},
		{Op: op(Op{K: "PushBlob", Repo: "s", B: 1, Piece: "alt"})}, // the mounted blob pushed again under another media type
		{Q: qp(Query{K: "GetTag", Repo: "r", Tag: "t"})},
		{Q: qp(Query{K: "GetBlob", Repo: "r", Dig: digB1, What: "b1"})},
		{Q: qp(Query{K: "Tags", Repo: "r"})},
		{Op: op(Op{K: "Write", H: 0, Piece: "c"})},
		{Op: op(Op{K: "Commit", H: 0, Off: "explicit", Piece: "ab"})},
		{Op: op(Op{K: "Resume", H: 0, Off: "num", N: 2})},
	}
}

func c08Generated(u *universe, thorough bool) []c08Harness {
	al := c08Alphabet(u)
	var hs []c08Harness
	for i, a := range al {
		for j, b := range al {
			hs = append(hs, c08Harness{Name: fmt.Sprintf("G2x1/%d-%d", i, j), Prologue: c08Seed, Threads: [][]cOp{{a}, {b}}})
		}
	}
	if thorough {
		for i, a := range al {
			for j, b := range al {
				for k, c := range al {
					if i <= j && j <= k {
						hs = append(hs, c08Harness{Name: fmt.Sprintf("G3x1/%d-%d-%d", i, j, k), Prologue: c08Seed, Threads: [][]cOp{{a}, {b}, {c}}})
					}
					hs = append(hs, c08Harness{Name: fmt.Sprintf("G2+1/%d.%d-%d", i, j, k), Prologue: c08Seed, Threads: [][]cOp{{a, b}, {c}}})
				}
			}
		}
		// four threads over a reduced alphabet (tag move, deletes, reads, commit, write)
		small := []cOp{al[2], al[3], al[4], al[8], al[11], al[12]}
		for i, a := range small {
			for j, b := range small {
				for k, c := range small {
					for l, d := range small {
						if i <= j && j <= k && k <= l {
							hs = append(hs, c08Harness{Name: fmt.Sprintf("G4x1/%d-%d-%d-%d", i, j, k, l), Prologue: c08Seed, Threads: [][]cOp{{a}, {b}, {c}, {d}}})
						}
					}
				}
			}
		}
	}
	return hs
}

func c08FP(h c08Harness) string {
	name := h.Name
	if strings.HasPrefix(name, "G") {
		// generated programs: identify by the multiset of operations involved
		var ops []string
		for _, t := range h.Threads {
			for _, o := range t {
				ops = append(ops, o.String())
			}
		}
		name = "G/" + strings.Join(ops, "||")
	}
	return name
}

// c08Explore runs one harness over all schedules within the bound.
func c08Explore(r *vcore.Run, h c08Harness, bound int, futex bool, deadline time.Duration) vsched.Stats {
	var e *c08Exec
	ex := vsched.Explorer{Bound: bound, Futex: futex, Deadline: deadline, MaxExec: 2000000}
	return ex.Explore(func(s *vsched.Sched) {
		e = &c08Exec{h: h}
		e.body(s)
	}, func(choices []int32, res vsched.Result) bool {
		hh := h
		hh.Schedule = choices
		if res.Failed != 0 {
			kind := map[int]string{1: "deadlock", 2: "horizon", 3: "HARNESS-ERROR/nondeterminism", 4: "HARNESS-ERROR/real-block"}[res.Failed]
			r.Violate("sched", h.prop()+"/"+c08FP(h)+"/"+kind, hh, "every schedule runs to completion", res.FailMsg)
			return false
		}
		if futex {
			return true // race mode: the detector is the oracle
		}
		e.epilogue()
		if ok, why := e.verdict(); !ok {
			// a failure is believed only if the same schedule fails again (captured nondeterminism)
			e2 := &c08Exec{h: h}
			res2 := vsched.Run(choices, false, e2.body)
			again := false
			if res2.Failed == 0 {
				e2.epilogue()
				ok2, _ := e2.verdict()
				again = !ok2
			}
			if !again {
				r.Violate("sched", h.prop()+"/HARNESS-ERROR/violation-not-reproducible/"+c08FP(h), hh, "the same schedule gives the same verdict", why)
				return false
			}
			r.Violate("sched", h.prop()+"/"+c08FP(h)+"/not-linearizable", hh, "some real-time-respecting order is accepted by the reference model", why)
			r.Outcome("not-linearizable")
		} else {
			r.Outcome("linearizable")
		}
		return true
	})
}

var raceSite = regexp.MustCompile(`(?m)^\s+cuelabs\.dev/go/oci/ociregistry/([A-Za-z0-9_/]+)\.\(?\*?([A-Za-z0-9_]+)\)?\.?([A-Za-z0-9_]*)`)

func c08Check(r *vcore.Run) vcore.Coverage {
	u := newUniverse()
	// worker mode: explore under the race detector with the invisible parker
	if os.Getenv("VERIF_RACE_WORKER") != "" {
		r.Replaying = true // no evidence file from a worker
		var hs []c08Harness
		json.Unmarshal([]byte(os.Getenv("VERIF_RACE_HARNESSES")), &hs)
		var execs int64
		for _, h := range hs {
			st := c08Explore(r, h, 2, true, 5*time.Minute)
			execs += st.Executions
			fmt.Printf("RACE-WORKER harness=%s executions=%d complete=%v\n", h.Name, st.Executions, st.Complete)
		}
		return vcore.Coverage{Evaluations: execs, Nontrivial: execs, Explanation: "race worker"}
	}
	if err := c16Probe(); err != nil {
		r.Violate("sched", "C08/HARNESS-ERROR/instrumentation", "probe", "scheduler hooks live", err.Error())
		return vcore.Coverage{}
	}
	directed := c08Directed(u)
	gen := c08Generated(u, r.Thorough())
	var execs, points, preempted int64
	complete := true
	var notes []map[string]any
	countPre := func(st vsched.Stats) {
		for k, n := range st.Preemptions {
			if k > 0 {
				preempted += n
			}
		}
	}
	for i, h := range directed {
		st := c08Explore(r, h, -1, false, 5*time.Minute)
		countPre(st)
		if i == 0 && st.Executions < 2 {
			r.Violate("sched", "C08/HARNESS-ERROR/instrumentation", "probe", "ocimem mutexes are scheduling points", "only one schedule explored: the sync import of ocimem is not instrumented")
			return vcore.Coverage{}
		}
		execs += st.Executions
		points += st.Points
		complete = complete && st.Complete
		notes = append(notes, map[string]any{"harness": h.Name, "schedules": st.Executions, "points": st.Points, "complete": st.Complete, "bound": "unbounded", "threads": st.MaxThreads})
	}
	var gexec int64
	for _, h := range gen {
		st := c08Explore(r, h, 2, false, time.Minute)
		countPre(st)
		execs += st.Executions
		gexec += st.Executions
		points += st.Points
		complete = complete && st.Complete
	}
	notes = append(notes, map[string]any{"harness": "generated programs", "programs": len(gen), "schedules": gexec, "bound": "<= 2 preemptions"})
	// race mode: the same harness bodies in the -race build, invisible parker
	raceExecs := c08RaceWorkers(r, append(append([]c08Harness(nil), directed...), gen...))
	r.Notes["harnesses"] = notes
	r.Notes["race_mode_schedules"] = raceExecs
	r.Sample("directed-harness", directed[0])
	r.Sample("generated-program", gen[len(gen)/2])
	r.Assume = []string{
		"<= 3 controlled threads (+ none spawned by ocimem); the property names up to 16 goroutines: larger thread counts are not explored",
		"scheduling points at mutex lock operations and thread start/exit (sound for data-race-free executions; races are searched for separately on every explored schedule with the futex parker, whose hand-offs are invisible to the race detector)",
		"linearizability is decided by brute force over all real-time-respecting total orders against the C02 reference model (three-valued where the statement is silent)",
	}
	return vcore.Coverage{States: execs, Transitions: points, TracesImpl: execs + raceExecs, Evaluations: execs + raceExecs, Nontrivial: preempted, Exhaustive: complete,
		Rule: fmt.Sprintf("non-trivial = logic-mode schedules with at least one preemption (measured); %d directed harnesses over ALL schedules + %d generated programs (2 threads x 1 op; thorough also 3x1 and 2+1) with <= 2 preemptions; every schedule checked for linearizability (logic mode) and re-explored under -race with the invisible parker; states = complete schedules, transitions = scheduling points", len(directed), len(gen))}
}

// c08RaceWorkers shards harnesses over subprocesses of the -race binary.
func c08RaceWorkers(r *vcore.Run, hs []c08Harness) int64 {
	bin := os.Getenv("VERIF_RACE_BIN")
	if bin == "" {
		r.Violate("race", "C08/HARNESS-ERROR/no-race-binary", "setup", "VERIF_RACE_BIN set by check.sh", "missing")
		return 0
	}
	nw := vcore.Workers()
	shards := make([][]c08Harness, nw)
	for i, h := range hs {
		shards[i%nw] = append(shards[i%nw], h)
	}
	var mu sync.Mutex
	var total int64
	var wg sync.WaitGroup
	for _, sh := range shards {
		if len(sh) == 0 {
			continue
		}
		sh := sh
		wg.Add(1)
		go func() {
			defer wg.Done()
			// one harness per process invocation would pay the start-up each time; a detected race halts the
			// process, so on exit 66 the shard is re-run harness by harness to name the culprit.
			run := func(list []c08Harness) (int, string) {
				data, _ := json.Marshal(list)
				cmd := exec.Command(bin, "C08", "--tier", r.Tier)
				cmd.Env = append(os.Environ(), "VERIF_RACE_WORKER=1", "VERIF_RACE_HARNESSES="+string(data), "GORACE=halt_on_error=1 exitcode=66", "VERIF_ROOT=/nonexistent-race-worker")
				out, err := cmd.CombinedOutput()
				code := 0
				if err != nil {
					code = -1
					if ee, ok := err.(*exec.ExitError); ok {
						code = ee.ExitCode()
					}
				}
				return code, string(out)
			}
			code, out := run(sh)
			count := func(out string) int64 {
				var n int64
				for _, l := range strings.Split(out, "\n") {
					var name string
					var ex int64
					var c bool
					if _, err := fmt.Sscanf(l, "RACE-WORKER harness=%s executions=%d complete=%v", &name, &ex, &c); err == nil {
						n += ex
					}
				}
				return n
			}
			mu.Lock()
			total += count(out)
			mu.Unlock()
			if code == 0 {
				return
			}
			for _, h := range sh {
				code, out := run([]c08Harness{h})
				if code == 0 {
					continue
				}
				if code == 66 || strings.Contains(out, "WARNING: DATA RACE") {
					site := raceSites(out)
					if strings.Contains(site, "verif/") {
						r.Violate("race", "C08/HARNESS-ERROR/race-in-harness-code/"+site, h, "harness data is thread-local", firstN(out, 60))
					} else {
						r.Violate("race", "C08/data-race/"+site, h, "no data race on any explored schedule", firstN(out, 60))
					}
				} else {
					r.Violate("race", "C08/HARNESS-ERROR/race-worker-exit", h, "worker exits 0 or 66", fmt.Sprintf("exit %d: %s", code, firstN(out, 30)))
				}
			}
		}()
	}
	wg.Wait()
	return total
}

// raceSites names the two racing accesses by the innermost function of each stack.
func raceSites(out string) string {
	lines := strings.Split(out, "\n")
	var fs []string
	for i, l := range lines {
		t := strings.TrimSpace(l)
		if (strings.HasPrefix(t, "Read at") || strings.HasPrefix(t, "Write at") || strings.HasPrefix(t, "Previous read at") || strings.HasPrefix(t, "Previous write at") ||
			strings.HasPrefix(t, "Atomic") || strings.HasPrefix(t, "Previous atomic")) && i+1 < len(lines) {
			// skip runtime frames (slice growth, map access) to the first non-runtime frame
			for j := i + 1; j < len(lines) && strings.TrimSpace(lines[j]) != ""; j += 2 {
				f := strings.TrimSpace(lines[j])
				if strings.HasPrefix(f, "runtime.") {
					continue
				}
				f = strings.TrimSuffix(f, "()")
				f = strings.TrimPrefix(f, "cuelabs.dev/go/oci/ociregistry/")
				fs = append(fs, f)
				break
			}
		}
		if len(fs) == 2 {
			break
		}
	}
	if len(fs) == 0 {
		return "unknown"
	}
	sort.Strings(fs)
	return strings.Join(fs, "+")
}

func firstN(s string, n int) string {
	lines := strings.Split(s, "\n")
	if len(lines) > n {
		lines = lines[:n]
	}
	return strings.Join(lines, "\n")
}

func c08Replay(r *vcore.Run, sub string, raw json.RawMessage) {
	var h c08Harness
	if err := json.Unmarshal(raw, &h); err != nil {
		return
	}
	e := &c08Exec{h: h}
	res := vsched.Run(h.Schedule, false, e.body)
	if res.Failed == 3 {
		// the recorded schedule names choices that do not exist on this tree (it was recorded on other
		// code: scheduling points differ). The artefact is then the harness: explore all its schedules.
		fmt.Println("replay: the recorded schedule does not apply to this tree (" + res.FailMsg + "); exploring every schedule of the harness instead")
		h.Schedule = nil
		bound := -1
		if strings.HasPrefix(h.Name, "G") {
			bound = 2
		}
		c08Explore(r, h, bound, false, 5*time.Minute)
		return
	}
	if res.Failed != 0 {
		r.Violate("sched", h.prop()+"/"+c08FP(h)+"/failed", h, "runs to completion", res.FailMsg)
		return
	}
	e.epilogue()
	if ok, why := e.verdict(); !ok {
		r.Violate("sched", h.prop()+"/"+c08FP(h)+"/not-linearizable", h, "linearizable", why)
	}
}
