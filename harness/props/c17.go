package props

import (
	"encoding/json"
	"fmt"
	"net/http"
	"net/http/httptest"
	"net/url"
	"strings"
	"sync/atomic"

	"cuelabs.dev/go/oci/ociregistry"
	"cuelabs.dev/go/oci/ociregistry/ociref"
	"cuelabs.dev/go/oci/ociregistry/ociserver"

	"verif/vcore"
)

// C17: reference parsing is a total exact partition consistent with the
// validators and with HTTP routing. E4: all strings up to a length bound over
// an 11-symbol alphabet + grammar-directed component products.

func init() {
	vcore.Register(&vcore.Prop{ID: "C17", Level: "exploration", Engine: "E4-enum", Check: c17Check, Replay: c17Replay})
}

const c17Alphabet = "aA0.:/@-_[]"

// shape abstracts a string for fingerprints: letters->a/A, digits->0, runs collapsed.
func shape(s string) string {
	var sb strings.Builder
	var prev byte
	for i := 0; i < len(s); i++ {
		c := s[i]
		switch {
		case 'a' <= c && c <= 'z':
			c = 'a'
		case 'A' <= c && c <= 'Z':
			c = 'A'
		case '0' <= c && c <= '9':
			c = '0'
		}
		if c == prev && (c == 'a' || c == 'A' || c == '0') {
			continue
		}
		prev = c
		sb.WriteByte(c)
		if sb.Len() >= 28 {
			sb.WriteString("…")
			break
		}
	}
	if sb.Len() == 0 {
		return "<empty>"
	}
	return sb.String()
}

type c17Case struct {
	S    string `json:"s"`
	Len  int    `json:"len"`
	Kind string `json:"kind"`
}

func c17case(kind, s string) c17Case {
	c := c17Case{S: s, Len: len(s), Kind: kind}
	return c
}

var c17Preds = []struct {
	name string
	impl func(string) bool
	ref  func(string) bool
}{
	{"IsValidHost", ociref.IsValidHost, refHost},
	{"IsValidRepository", ociref.IsValidRepository, refRepo},
	{"IsValidTag", ociref.IsValidTag, refTag},
	{"IsValidDigest", ociref.IsValidDigest, refDigest},
	{"ociregistry.IsValidRepoName", ociregistry.IsValidRepoName, refRepo},
	{"ociregistry.IsValidTag", ociregistry.IsValidTag, refTag},
	{"ociregistry.IsValidDigest", ociregistry.IsValidDigest, refDigest},
}

// partsValid: independent validity incl. length limits.
func c17PartsValid(host, repo, tag, dig string) bool {
	return (host == "" || refHost(host)) && refRepo(repo) && len(repo) <= 255 &&
		(tag == "" || refTag(tag)) && (dig == "" || refDigest(dig))
}

func c17CheckString(r *vcore.Run, s string) (parsed bool) {
	c := c17case("string", s)
	for _, p := range c17Preds {
		p := p
		r.Guard("string", "C17/"+p.name+"/"+shape(s), c, func() {
			if got, want := p.impl(s), p.ref(s); got != want {
				kind := "false-positive"
				if !got {
					kind = "false-negative"
				}
				r.Violate("string", fmt.Sprintf("C17/%s/%s/%s", p.name, kind, shape(s)), c, fmt.Sprint(want), fmt.Sprint(got))
			}
		})
	}
	r.Guard("string", "C17/Parse/"+shape(s), c, func() {
		rel, rerr := ociref.ParseRelative(s)
		abs, aerr := ociref.Parse(s)
		if rerr == nil {
			parsed = true
			if got := rel.String(); got != s {
				r.Violate("string", "C17/ParseRelative/print-differs/"+shape(s), c, s, got)
			}
			if !c17PartsValid(rel.Host, rel.Repository, rel.Tag, string(rel.Digest)) {
				r.Violate("string", "C17/ParseRelative/invalid-part/"+shape(s), c, "every part valid and within its length limit", fmt.Sprintf("%+v", rel))
			}
			// the library's own predicates must accept the parts too
			if (rel.Host != "" && !ociref.IsValidHost(rel.Host)) || !ociref.IsValidRepository(rel.Repository) ||
				(rel.Tag != "" && !ociref.IsValidTag(rel.Tag)) || (rel.Digest != "" && !ociref.IsValidDigest(string(rel.Digest))) {
				r.Violate("string", "C17/ParseRelative/part-fails-own-predicate/"+shape(s), c, "parts satisfy IsValid*", fmt.Sprintf("%+v", rel))
			}
		}
		wantAbs := rerr == nil && rel.Host != ""
		if (aerr == nil) != wantAbs {
			r.Violate("string", "C17/Parse/disagrees-with-ParseRelative/"+shape(s), c, fmt.Sprintf("Parse ok=%v", wantAbs), fmt.Sprintf("Parse err=%v", aerr))
		} else if aerr == nil && abs != rel {
			r.Violate("string", "C17/Parse/differs-from-ParseRelative/"+shape(s), c, fmt.Sprintf("%+v", rel), fmt.Sprintf("%+v", abs))
		}
		// converse on strings: every independent valid partition with a host must be what Parse returns
		if i := strings.IndexByte(s, '/'); i > 0 && refHost(s[:i]) {
			host, rest := s[:i], s[i+1:]
			dig := ""
			if j := strings.IndexByte(rest, '@'); j >= 0 {
				rest, dig = rest[:j], rest[j+1:]
				if dig == "" {
					return
				}
			}
			repo, tag, hasTag := strings.Cut(rest, ":")
			if hasTag && tag == "" {
				return
			}
			if c17PartsValid(host, repo, tag, dig) {
				want := ociref.Reference{Host: host, Repository: repo, Tag: tag, Digest: ociref.Digest(dig)}
				if aerr != nil || abs != want {
					r.Violate("string", "C17/Parse/valid-partition-not-recovered/"+shape(s), c, fmt.Sprintf("%+v", want), fmt.Sprintf("%+v err=%v", abs, aerr))
				}
			}
		}
	})
	return parsed
}

// c17Parts checks the converse direction on explicit parts.
func c17CheckParts(r *vcore.Run, host, repo, tag, dig string) {
	ref := ociref.Reference{Host: host, Repository: repo, Tag: tag, Digest: ociref.Digest(dig)}
	type pc struct{ Host, Repository, Tag, Digest string }
	c := pc{host, repo, tag, dig}
	var s string
	if r.Guard("parts", "C17/String", c, func() { s = ref.String() }) {
		return
	}
	c17CheckString(r, s)
	if host != "" && c17PartsValid(host, repo, tag, dig) {
		r.Guard("parts", "C17/parts", c, func() {
			got, err := ociref.Parse(s)
			if err != nil || got != ref {
				fp := fmt.Sprintf("C17/parts/valid-parts-do-not-round-trip/host=%s/repo=%s/tag=%s/digest=%s", shape(host), shape(repo), shape(tag), shape(dig))
				r.Violate("parts", fp, c, fmt.Sprintf("%+v", ref), fmt.Sprintf("%+v err=%v", got, err))
			}
		})
	}
}

// routing agreement through ociserver with a recording backend.
func c17CheckRoute(r *vcore.Run, s string) {
	c := c17case("route", s)
	type probe struct {
		kind   string
		path   string
		accept func(calls []recCall) bool // backend invoked with s as the argument
		pred   bool
	}
	const dig = "sha256:e3b0c44298fc1c149afbf4c8996fb92427ae41e4649b934ca495991b7852b855"
	any := func(methods ...string) func(cs []recCall) bool {
		return func(cs []recCall) bool {
			for _, c := range cs {
				for _, m := range methods {
					if c.Method == m {
						return true
					}
				}
			}
			return false
		}
	}
	// The repository is everything between /v2/ and the final /tags/list, so
	// any Tags call means the router accepted s as a repository name. For the
	// last-segment probes the same holds when s has no slash; with a slash the
	// URL legitimately denotes a different repository, and only "invoked with
	// s itself" is compared.
	slash := strings.Contains(s, "/")
	exact := func(method string, get func(recCall) string) func(cs []recCall) bool {
		return func(cs []recCall) bool {
			for _, c := range cs {
				if c.Method == method && get(c) == s {
					return true
				}
			}
			return false
		}
	}
	tagAccept, digAccept, mdigAccept := any("GetTag"), any("GetBlob", "GetBlobRange"), any("GetManifest")
	if slash {
		tagAccept = exact("GetTag", func(c recCall) string { return c.Tag })
		digAccept = exact("GetBlob", func(c recCall) string { return c.Digest })
		mdigAccept = exact("GetManifest", func(c recCall) string { return c.Digest })
	}
	probes := []probe{
		{"repository", "/v2/" + s + "/tags/list", any("Tags"), refRepo(s)},
		{"tag", "/v2/r/manifests/" + s, tagAccept, refTag(s)},
		{"digest", "/v2/r/blobs/" + s, digAccept, refDigest(s)},
		{"manifest-digest", "/v2/r/manifests/" + s, mdigAccept, refDigest(s)},
	}
	// s as the repository of every other route: the router accepts exactly the valid names on each of them
	repoIs := func(method string) func(cs []recCall) bool {
		return exact(method, func(c recCall) string { return c.Repo })
	}
	for _, rp := range []struct{ kind, method, path, query, backend string }{
		{"repository/get-blob", "GET", "/v2/" + s + "/blobs/" + dig, "", "GetBlob"},
		{"repository/get-tag", "GET", "/v2/" + s + "/manifests/t", "", "GetTag"},
		{"repository/delete-manifest", "DELETE", "/v2/" + s + "/manifests/" + dig, "", "DeleteManifest"},
		{"repository/referrers", "GET", "/v2/" + s + "/referrers/" + dig, "", "Referrers"},
		{"repository/start-upload", "POST", "/v2/" + s + "/blobs/uploads/", "", "PushBlobChunked"},
		{"repository/start-upload-no-slash", "POST", "/v2/" + s + "/blobs/uploads", "", "PushBlobChunked"},
		{"repository/monolithic-upload", "POST", "/v2/" + s + "/blobs/uploads/", "digest=" + dig, "PushBlob"},
		{"repository/mount", "POST", "/v2/" + s + "/blobs/uploads/", "mount=" + dig + "&from=r", "MountBlob"},
	} {
		probes = append(probes, probe{rp.kind + "|" + rp.method + "|" + rp.query, rp.path, repoIs(rp.backend), refRepo(s)})
	}
	for _, p := range probes {
		p := p
		b := newRecBackend()
		h := ociserver.New(b.Funcs(), nil)
		method, query := "GET", ""
		if parts := strings.Split(p.kind, "|"); len(parts) == 3 {
			p.kind, method, query = parts[0], parts[1], parts[2]
		}
		req := &http.Request{Method: method, URL: &url.URL{Path: p.path, RawQuery: query}, Header: http.Header{}, Proto: "HTTP/1.1", ProtoMajor: 1, ProtoMinor: 1, Host: "h", Body: http.NoBody}
		rec := httptest.NewRecorder()
		if r.Guard("route", "C17/route/"+p.kind+"/"+shape(s), c, func() { h.ServeHTTP(rec, req) }) {
			continue
		}
		calls := b.topCalls()
		if got := p.accept(calls); got != p.pred {
			kind := "accepted-but-invalid"
			if !got {
				kind = "valid-but-not-routed"
			}
			r.Violate("route", fmt.Sprintf("C17/route/%s/%s/%s", p.kind, kind, shape(s)), c, fmt.Sprintf("backend invoked with %q as %s: %v", s, p.kind, p.pred), fmt.Sprintf("status %d calls %v", rec.Code, calls))
		}
		// whatever was routed carries only valid arguments
		for _, cl := range calls {
			if (cl.Repo != "" || cl.Method == "Tags") && !refRepo(cl.Repo) {
				r.Violate("route", "C17/route/backend-got-invalid-repository/"+shape(cl.Repo), c, "valid repository", cl.String())
			}
			if cl.Tag != "" && !refTag(cl.Tag) {
				r.Violate("route", "C17/route/backend-got-invalid-tag/"+shape(cl.Tag), c, "valid tag", cl.String())
			}
			if cl.Digest != "" && !refDigest(cl.Digest) {
				r.Violate("route", "C17/route/backend-got-invalid-digest/"+shape(cl.Digest), c, "valid digest", cl.String())
			}
		}
	}
}

func c17Hex(n int, c byte) string { return strings.Repeat(string(c), n) }

func c17Components() (hosts, repos, tags, digs []string) {
	hosts = []string{"", "a.b", "a.b:0", "a:0", "A.b-c.d", "[::1]", "[a:0::F]:00", "0.0.0.0:5000", "localhost", "a", "a.b:", "-a.b", "a.b-", "[::1", "a..b", "a.b:x", "[g]",
		// ports beyond what TCP allows: whatever the validator says about them, the parser says too
		"localhost:65535", "localhost:65536", "a.b:99999", "[::1]:70000", "a.b:99999999999999999999"}
	long := func(n int) string { return strings.Repeat("a", n) }
	repos = []string{"a", "a/b", "a.b/c", "a_b", "a__b", "a---b", "a.b_c-d/e0", long(255), long(256), long(127) + "/" + long(127), long(127) + "/" + long(128),
		"A", "a//b", "a/", "/a", "a___b", "a_.b", "a.", "", "a/b/manifests/c", "blobs/uploads", "a:0"}
	tags = []string{"", "t", "T_0.x-y", "_", long(128), long(129), ".t", "-t", "t/u", "t@u", "t:u", "0"}
	digs = []string{"", "sha256:" + c17Hex(64, 'a'), "sha384:" + c17Hex(96, '0'), "sha512:" + c17Hex(128, 'f'),
		"sha256:" + c17Hex(63, 'a'), "sha256:" + c17Hex(65, 'a'), "sha256:" + c17Hex(64, 'A'), "md5:" + c17Hex(32, 'a'), "sha256", "sha256:", "sha256:" + c17Hex(64, 'g'), "sha512:" + c17Hex(64, 'a'), "SHA256:" + c17Hex(64, 'a')}
	return
}

func c17Check(r *vcore.Run) vcore.Coverage {
	maxLen, routeLen := 5, 3
	if r.Thorough() {
		maxLen, routeLen = 6, 5
	}
	var evals, parsedN, routed int64
	alpha := []byte(c17Alphabet)
	// enumerate all strings up to maxLen, sharded by the first two symbols
	visit := func(str string, ev, pn, rt *int64) {
		if c17CheckString(r, str) {
			*pn++
		}
		*ev++
		if len(str) <= routeLen {
			c17CheckRoute(r, str)
			*rt++
		}
	}
	visit("", &evals, &parsedN, &routed)
	var prefixes []string
	for _, a := range alpha {
		visit(string(a), &evals, &parsedN, &routed)
		for _, b := range alpha {
			prefixes = append(prefixes, string([]byte{a, b}))
		}
	}
	vcore.ParallelN(len(prefixes), func(pi int) {
		var ev, pn, rt int64
		var rec func(s []byte)
		rec = func(s []byte) {
			visit(string(s), &ev, &pn, &rt)
			if len(s) >= maxLen {
				return
			}
			for _, a := range alpha {
				rec(append(s, a))
			}
		}
		rec([]byte(prefixes[pi]))
		atomic.AddInt64(&evals, ev)
		atomic.AddInt64(&parsedN, pn)
		atomic.AddInt64(&routed, rt)
	})
	// component products
	hosts, repos, tags, digs := c17Components()
	type quad struct{ h, rp, t, d string }
	var quads []quad
	for _, h := range hosts {
		for _, rp := range repos {
			for _, t := range tags {
				for _, d := range digs {
					quads = append(quads, quad{h, rp, t, d})
				}
			}
		}
	}
	var validQuads int64
	vcore.ParallelN(len(quads), func(i int) {
		q := quads[i]
		c17CheckParts(r, q.h, q.rp, q.t, q.d)
		if q.h != "" && c17PartsValid(q.h, q.rp, q.t, q.d) {
			atomic.AddInt64(&validQuads, 1)
		}
	})
	evals += int64(len(quads))
	// routing of every component as repository / tag / digest
	var comps []string
	comps = append(comps, hosts...)
	comps = append(comps, repos...)
	comps = append(comps, tags...)
	comps = append(comps, digs...)
	for _, rp := range repos {
		for _, w := range []string{"blobs", "manifests", "uploads", "tags", "list", "referrers", "_catalog", "blobs/uploads", "tags/list"} {
			comps = append(comps, rp+"/"+w, w+"/"+rp, w)
		}
	}
	vcore.ParallelN(len(comps), func(i int) {
		c17CheckString(r, comps[i])
		c17CheckRoute(r, comps[i])
	})
	routed += int64(len(comps))
	evals += int64(len(comps))
	r.Sample("string", c17case("string", "a.b/a:A@"))
	r.Sample("parts", map[string]string{"Host": "a.b:0", "Repository": "a__b/c", "Tag": "T_0.x-y", "Digest": "sha256:" + c17Hex(64, 'a')})
	r.Sample("route", c17case("route", "a/blobs/uploads"))
	r.Notes["strings_that_parse"] = parsedN
	r.Notes["routing_probes"] = routed * 4
	r.Notes["valid_part_combinations"] = validQuads
	r.Assume = []string{
		"unstructured strings are bounded by length over the alphabet " + c17Alphabet + "; longer inputs only through the component products",
		"oracle = hand-written recognisers of the distribution reference grammar (props/grammar.go), independent of ociref's regexps and of go-digest",
	}
	return vcore.Coverage{Evaluations: evals, Nontrivial: parsedN + validQuads, Exhaustive: true,
		Rule: fmt.Sprintf("all strings of length <= %d over %d symbols (routing probes for length <= %d), plus %d host x repository x tag x digest combinations and every component as a routed repository/tag/digest; non-trivial = strings that parse + valid part combinations with a host", maxLen, len(alpha), routeLen, len(quads)),
	}
}

func c17Replay(r *vcore.Run, sub string, raw json.RawMessage) {
	var c c17Case
	if err := json.Unmarshal(raw, &c); err == nil && c.Kind != "" {
		c17CheckString(r, c.S)
		c17CheckRoute(r, c.S)
		return
	}
	var p struct{ Host, Repository, Tag, Digest string }
	if err := json.Unmarshal(raw, &p); err == nil {
		c17CheckParts(r, p.Host, p.Repository, p.Tag, p.Digest)
	}
}
