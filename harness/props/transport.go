package props

import (
	"bytes"
	"fmt"
	"io"
	"net/http"
	"net/http/httptest"
	"strconv"
	"strings"

	"cuelabs.dev/go/oci/ociregistry"
	"cuelabs.dev/go/oci/ociregistry/ociclient"
	"cuelabs.dev/go/oci/ociregistry/ociserver"
)

// inprocTransport is an http.RoundTripper that calls the handler directly on
// the calling goroutine and then applies the net/http rules the code under
// test relies on. It is itself a model of net/http and is bound to the real
// thing by replaying short histories over a loopback httptest.Server (see
// C03's binding run).
type inprocTransport struct {
	h http.Handler
	// Requests counts round trips (progress budgets in C18).
	Requests int
	// Hook, if set, may replace the genuine response (fault injection).
	Hook func(req *http.Request, resp *http.Response) *http.Response
	// Mangle, if set, edits what the server produced (status, headers, body) BEFORE the
	// net/http framing rules are applied, like a faulty server or middlebox would.
	// It returns true when the Content-Length header must be treated as absent
	// (the real server would then use chunked encoding: unknown length).
	Mangle func(req *http.Request, status *int, header http.Header, body *[]byte) (unknownLength bool)
	// Log receives one line per round trip when non-nil.
	Log func(string)
	// MaxRequests > 0 bounds the number of round trips (progress budget): beyond it every
	// round trip fails and Exceeded is set, so that a client looping without progress terminates.
	MaxRequests int
	Exceeded    bool
	// FailBefore, if set and returning an error, makes the round trip fail before anything is
	// delivered to the server (connection refused, broken pipe on connect): the server never sees it.
	FailBefore func(req *http.Request) error
}

type errReader struct {
	r   io.Reader
	err error
}

func (e *errReader) Read(p []byte) (int, error) {
	n, err := e.r.Read(p)
	if err == io.EOF {
		return n, e.err
	}
	return n, err
}

//go:norace
func (t *inprocTransport) count() { t.Requests++ }

func (t *inprocTransport) RoundTrip(req *http.Request) (*http.Response, error) {
	t.count()
	if t.MaxRequests > 0 && t.Requests > t.MaxRequests {
		t.Exceeded = true
		if req.Body != nil {
			req.Body.Close()
		}
		return nil, fmt.Errorf("inproc transport: request budget of %d exceeded", t.MaxRequests)
	}
	if t.FailBefore != nil {
		if err := t.FailBefore(req); err != nil {
			if req.Body != nil {
				req.Body.Close()
			}
			return nil, err
		}
	}
	var body []byte
	if req.Body != nil {
		var err error
		body, err = io.ReadAll(req.Body)
		req.Body.Close()
		if err != nil {
			return nil, fmt.Errorf("inproc transport: reading request body: %w", err)
		}
		if req.ContentLength >= 0 && int64(len(body)) != req.ContentLength {
			return nil, fmt.Errorf("http: ContentLength=%d with Body length %d", req.ContentLength, len(body))
		}
	} else if req.ContentLength > 0 {
		return nil, fmt.Errorf("http: Request.ContentLength=%d with nil Body", req.ContentLength)
	}
	sreq, err := http.NewRequestWithContext(req.Context(), req.Method, req.URL.String(), bytes.NewReader(body))
	if err != nil {
		return nil, err
	}
	for k, v := range req.Header {
		sreq.Header[k] = append([]string(nil), v...)
	}
	sreq.ContentLength = int64(len(body))
	if len(body) > 0 || req.ContentLength == 0 && req.Body != nil {
		sreq.Header.Set("Content-Length", strconv.Itoa(len(body)))
	}
	sreq.Host = req.URL.Host
	sreq.RequestURI = req.URL.RequestURI()
	sreq.RemoteAddr = "inproc"
	rec := httptest.NewRecorder()
	t.h.ServeHTTP(rec, sreq)
	res := rec.Result()
	data, _ := io.ReadAll(res.Body)
	unknownLength := false
	if t.Mangle != nil {
		unknownLength = t.Mangle(req, &res.StatusCode, res.Header, &data)
	}
	noBody := req.Method == "HEAD" || res.StatusCode == 204 || res.StatusCode == 304 || res.StatusCode/100 == 1
	resp := &http.Response{
		Status: fmt.Sprintf("%d %s", res.StatusCode, http.StatusText(res.StatusCode)), StatusCode: res.StatusCode,
		Proto: "HTTP/1.1", ProtoMajor: 1, ProtoMinor: 1,
		Header: res.Header.Clone(), Request: req,
	}
	resp.ContentLength = -1
	declared := int64(-1)
	if cl := res.Header.Get("Content-Length"); cl != "" {
		n, err := strconv.ParseInt(strings.TrimSpace(cl), 10, 64)
		if err != nil || n < 0 {
			// net/http refuses such a response
			return nil, fmt.Errorf("inproc transport: bad Content-Length %q", cl)
		}
		declared = n
	}
	switch {
	case noBody:
		resp.Body = http.NoBody
		resp.ContentLength = 0
		if req.Method == "HEAD" {
			resp.ContentLength = declared
		}
	case declared >= 0:
		resp.ContentLength = declared
		if int64(len(data)) >= declared {
			resp.Body = io.NopCloser(bytes.NewReader(data[:declared]))
		} else {
			resp.Body = io.NopCloser(&errReader{r: bytes.NewReader(data), err: io.ErrUnexpectedEOF})
		}
	case unknownLength:
		resp.ContentLength = -1
		resp.Body = io.NopCloser(bytes.NewReader(data))
	default:
		// the recorder did not see a Content-Length: net/http would add one for small bodies
		resp.ContentLength = int64(len(data))
		resp.Body = io.NopCloser(bytes.NewReader(data))
	}
	if t.Log != nil {
		t.Log(fmt.Sprintf("%s %s -> %d", req.Method, req.URL.RequestURI(), res.StatusCode))
	}
	if t.Hook != nil {
		if r2 := t.Hook(req, resp); r2 != nil {
			resp = r2
		}
	}
	return resp, nil
}

// httpStack builds client -> in-process transport -> server -> backend.
func httpStack(backend ociregistry.Interface, sopts *ociserver.Options, copts *ociclient.Options) (ociregistry.Interface, *inprocTransport) {
	tr := &inprocTransport{h: ociserver.New(backend, sopts)}
	var o ociclient.Options
	if copts != nil {
		o = *copts
	}
	o.Transport = tr
	o.Insecure = true
	c, err := ociclient.New("registry.test", &o)
	if err != nil {
		panic(err)
	}
	return c, tr
}
