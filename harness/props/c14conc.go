package props

import (
	"fmt"
	"os"
	"time"

	"verif/vcore"
	"verif/vsched"
)

// C14, concurrent part: immutable-tags mode "also under concurrency". The C08
// machinery (controlled threads over ocimem, every schedule, linearizability
// against the reference model in immutable mode, final sweep) is run on
// harnesses whose threads race tagged pushes against deletes, mounts and reads.
// A schedule in which a tag moves, a denied delete goes through, or content
// reachable from a tag disappears has no sequential explanation in the model.

func c14ConcDirected(u *universe) []c08Harness {
	digB1 := string(sha256Digest(u.Blobs[1]))
	digM1 := string(sha256Digest(u.Manifests[1].Data))
	blobs := c08Seed[:2]
	withM1 := append(append([]Op(nil), blobs...), Op{K: "PushManifest", Repo: "r", M: 1})
	tagged := append(append([]Op(nil), blobs...), Op{K: "PushManifest", Repo: "r", M: 1, Tag: "t"})
	hs := []c08Harness{
		{Name: "I1-tagged-push-vs-deletes-of-config-and-layer", Prologue: blobs, Threads: [][]cOp{
			{{Op: op(Op{K: "PushManifest", Repo: "r", M: 1, Tag: "t"})}},
			{{Op: op(Op{K: "DeleteBlob", Repo: "r", B: 1})}},
			{{Op: op(Op{K: "DeleteBlob", Repo: "r", B: 2})}},
		}},
		{Name: "I2-two-pushers-one-tag-with-observers", Prologue: blobs, Threads: [][]cOp{
			{{Op: op(Op{K: "PushManifest", Repo: "r", M: 0, Tag: "t"})}, {Q: qp(Query{K: "ResolveTag", Repo: "r", Tag: "t"})}},
			{{Op: op(Op{K: "PushManifest", Repo: "r", M: 1, Tag: "t"})}, {Q: qp(Query{K: "GetTag", Repo: "r", Tag: "t"})}},
		}},
		{Name: "I3-tagged-index-push-vs-delete-of-child-manifest", Prologue: withM1, Threads: [][]cOp{
			{{Op: op(Op{K: "PushManifest", Repo: "r", M: 3, Tag: "u"})}},
			{{Op: op(Op{K: "DeleteManifest", Repo: "r", M: 1})}},
			{{Q: qp(Query{K: "GetManifest", Repo: "r", Dig: digM1, What: "mi"})}},
		}},
		{Name: "I4-tagged-index-push-vs-delete-of-grandchild-blob", Prologue: withM1, Threads: [][]cOp{
			{{Op: op(Op{K: "PushManifest", Repo: "r", M: 3, Tag: "u"})}},
			{{Op: op(Op{K: "DeleteBlob", Repo: "r", B: 2})}, {Op: op(Op{K: "PushBlob", Repo: "r", B: 2})}},
		}},
		{Name: "I5-delete-tag-vs-repush-vs-delete-manifest", Prologue: tagged, Threads: [][]cOp{
			{{Op: op(Op{K: "DeleteTag", Repo: "r", Tag: "t"})}, {Op: op(Op{K: "PushManifest", Repo: "r", M: 0, Tag: "t"})}},
			{{Op: op(Op{K: "DeleteManifest", Repo: "r", M: 1})}},
			{{Q: qp(Query{K: "ResolveTag", Repo: "r", Tag: "t"})}, {Q: qp(Query{K: "GetBlob", Repo: "r", Dig: digB1, What: "b1"})}},
		}},
		{Name: "I6-mount-vs-delete-under-a-tag", Prologue: tagged, Threads: [][]cOp{
			{{Op: op(Op{K: "Mount", From: "r", Repo: "s", B: 1})}, {Op: op(Op{K: "DeleteBlob", Repo: "s", B: 1})}},
			{{Op: op(Op{K: "DeleteBlob", Repo: "r", B: 1})}},
			{{Q: qp(Query{K: "GetBlob", Repo: "r", Dig: digB1, What: "b1"})}},
		}},
		{Name: "I7-untagged-repush-under-other-media-type-vs-delete", Prologue: append(append([]Op(nil), blobs...), Op{K: "PushManifest", Repo: "r", M: 8, Tag: "t"}), Threads: [][]cOp{
			{{Op: op(Op{K: "PushManifest", Repo: "r", M: 1})}},
			{{Op: op(Op{K: "DeleteBlob", Repo: "r", B: 1})}, {Op: op(Op{K: "PushBlob", Repo: "r", B: 1})}},
		}},
	}
	for i := range hs {
		hs[i].Immutable, hs[i].Prop = true, "C14"
	}
	// the Immutable wrapper over a mutable registry, overlapping tagged pushes (the content of one of them
	// already named by another tag): nothing is deleted underneath, nothing stored before disappears
	stable := append(append([]Op(nil), blobs...), Op{K: "PushManifest", Repo: "r", M: 1, Tag: "u"}, Op{K: "PushManifest", Repo: "r", M: 0})
	for _, th := range [][][]cOp{
		{{{Op: op(Op{K: "PushManifest", Repo: "r", M: 1, Tag: "t"})}}, {{Op: op(Op{K: "PushManifest", Repo: "r", M: 0, Tag: "t"})}}},
		{{{Op: op(Op{K: "PushManifest", Repo: "r", M: 1, Tag: "t"})}}, {{Op: op(Op{K: "PushManifest", Repo: "r", M: 0, Tag: "t"})}}, {{Op: op(Op{K: "PushManifest", Repo: "r", M: 8, Tag: "t"})}}},
		{{{Op: op(Op{K: "PushManifest", Repo: "r", M: 1, Tag: "t"})}, {Op: op(Op{K: "DeleteManifest", Repo: "r", M: 0})}}, {{Op: op(Op{K: "PushManifest", Repo: "r", M: 0, Tag: "t"})}, {Op: op(Op{K: "DeleteTag", Repo: "r", Tag: "u"})}}},
	} {
		hs = append(hs, c08Harness{Name: fmt.Sprintf("W%d-overlapping-tagged-pushes-through-the-Immutable-wrapper", len(th)), Prologue: stable, Threads: th, Prop: "C14", Oracle: "nothing-deleted-through-immutable"})
	}
	return hs
}

func c14ConcAlphabet(u *universe) []cOp {
	digB1 := string(sha256Digest(u.Blobs[1]))
	digM1 := string(sha256Digest(u.Manifests[1].Data))
	return []cOp{
		{Op: op(Op{K: "PushManifest", Repo: "r", M: 0, Tag: "t"})},
		{Op: op(Op{K: "PushManifest", Repo: "r", M: 1, Tag: "t"})},
		{Op: op(Op{K: "PushManifest", Repo: "r", M: 3, Tag: "t"})},
		{Op: op(Op{K: "PushManifest", Repo: "r", M: 3, Tag: "u"})},
		{Op: op(Op{K: "PushManifest", Repo: "r", M: 8})},
		{Op: op(Op{K: "DeleteBlob", Repo: "r", B: 1})},
		{Op: op(Op{K: "DeleteBlob", Repo: "r", B: 2})},
		{Op: op(Op{K: "DeleteManifest", Repo: "r", M: 1})},
		{Op: op(Op{K: "DeleteManifest", Repo: "r", M: 3})},
		{Op: op(Op{K: "DeleteTag", Repo: "r", Tag: "t"})},
		{Op: op(Op{K: "PushBlob", Repo: "r", B: 1})},
		{Op: op(Op{K: "Mount", From: "r", Repo: "s", B: 1})},
		{Q: qp(Query{K: "GetTag", Repo: "r", Tag: "t"})},
		{Q: qp(Query{K: "ResolveTag", Repo: "r", Tag: "u"})},
		{Q: qp(Query{K: "GetBlob", Repo: "r", Dig: digB1, What: "b1"})},
		{Q: qp(Query{K: "GetManifest", Repo: "r", Dig: digM1, What: "mi"})},
	}
}

func c14ConcGenerated(u *universe, thorough bool) []c08Harness {
	al := c14ConcAlphabet(u)
	blobs := c08Seed[:2]
	pro := append(append([]Op(nil), blobs...), Op{K: "PushManifest", Repo: "r", M: 1})
	var hs []c08Harness
	for i, a := range al {
		for j, b := range al {
			if i <= j {
				hs = append(hs, c08Harness{Name: fmt.Sprintf("G2x1/%d-%d", i, j), Prologue: pro, Threads: [][]cOp{{a}, {b}}})
			}
			for k, c := range al {
				if !thorough && !(i < 5 && k >= 5) && !(i >= 5 && k < 5) {
					continue // quick: two-step threads only where a push and a non-push race
				}
				hs = append(hs, c08Harness{Name: fmt.Sprintf("G2+1/%d.%d-%d", i, j, k), Prologue: pro, Threads: [][]cOp{{a, b}, {c}}})
			}
		}
	}
	if thorough {
		for i, a := range al {
			for j, b := range al {
				for k, c := range al {
					if i <= j && j <= k {
						hs = append(hs, c08Harness{Name: fmt.Sprintf("G3x1/%d-%d-%d", i, j, k), Prologue: pro, Threads: [][]cOp{{a}, {b}, {c}}})
					}
				}
			}
		}
	}
	for i := range hs {
		hs[i].Immutable, hs[i].Prop = true, "C14"
	}
	return hs
}

type c14ConcStats struct {
	Execs, Points, Preempted int64
	Complete                 bool
	Notes                    []map[string]any
}

// c14Concurrent explores the concurrent harnesses; it needs the instrumented build.
func c14Concurrent(r *vcore.Run) (st c14ConcStats) {
	st.Complete = true
	if os.Getenv("VERIF_NO_SCHED") != "" {
		st.Complete = false
		return
	}
	if err := c16Probe(); err != nil {
		r.Violate("sched", "C14/HARNESS-ERROR/instrumentation", "probe", "scheduler hooks live", err.Error())
		st.Complete = false
		return
	}
	u := newUniverse()
	add := func(h c08Harness, s vsched.Stats) {
		st.Execs += s.Executions
		st.Points += s.Points
		st.Complete = st.Complete && s.Complete
		for k, n := range s.Preemptions {
			if k > 0 {
				st.Preempted += n
			}
		}
	}
	for i, h := range c14ConcDirected(u) {
		s := c08Explore(r, h, -1, false, 5*time.Minute)
		if i == 0 && s.Executions < 2 {
			r.Violate("sched", "C14/HARNESS-ERROR/instrumentation", "probe", "ocimem mutexes are scheduling points", "only one schedule explored")
			st.Complete = false
			return
		}
		add(h, s)
		st.Notes = append(st.Notes, map[string]any{"harness": h.Name, "schedules": s.Executions, "points": s.Points, "complete": s.Complete, "bound": "unbounded", "threads": s.MaxThreads})
	}
	gen := c14ConcGenerated(u, r.Thorough())
	var gexec int64
	for _, h := range gen {
		s := c08Explore(r, h, 2, false, time.Minute)
		add(h, s)
		gexec += s.Executions
	}
	st.Notes = append(st.Notes, map[string]any{"harness": "generated immutable-tags programs", "programs": len(gen), "schedules": gexec, "bound": "<= 2 preemptions"})
	return
}
