package props

import (
	"bytes"
	"context"
	"crypto/sha256"
	"crypto/sha512"
	"encoding/json"
	"fmt"
	"io"
	"net/http"
	"net/http/httptest"
	"strings"
	"sync/atomic"
	"time"

	"cuelabs.dev/go/oci/ociregistry"
	"cuelabs.dev/go/oci/ociregistry/ocidebug"
	"cuelabs.dev/go/oci/ociregistry/ocifilter"
	"cuelabs.dev/go/oci/ociregistry/ocimem"
	"cuelabs.dev/go/oci/ociregistry/ociserver"
	"cuelabs.dev/go/oci/ociregistry/ociunify"

	"verif/vcore"
	"verif/vstate"
)

// C01: content integrity. (a) every content x push path x stack x read entry
// point x range pair; (b) inconsistent descriptors are rejected and leave
// nothing; (d) every corruption of a read response is detected by the client.
// (c), interleaving with other pushes/deletes, is carried by the C02/C03
// history searches, whose sweeps compare bytes and digests in every state.

func init() {
	vcore.Register(&vcore.Prop{ID: "C01", Level: "model_checking", Engine: "E2-state", Check: c01Check, Replay: c01Replay})
}

type c01Case struct {
	Stack   string `json:"stack"`
	Path    string `json:"push_path"`
	Content []byte `json:"content"`
	Split   int    `json:"split,omitempty"`
	Bad     string `json:"bad_descriptor,omitempty"`
	// Pre: the content that really has the declared digest is already in the repository before the
	// inconsistent push is made (a registry that recognises the digest must still check the bytes).
	Pre bool `json:"declared_digest_already_present,omitempty"`
}

// independent digest computation (not go-digest)
func indepDigest(alg string, data []byte) string {
	switch alg {
	case "sha256":
		return fmt.Sprintf("sha256:%x", sha256.Sum256(data))
	case "sha384":
		return fmt.Sprintf("sha384:%x", sha512.Sum384(data))
	case "sha512":
		return fmt.Sprintf("sha512:%x", sha512.Sum512(data))
	}
	return ""
}

func digestMatches(d ociregistry.Digest, data []byte) bool {
	alg, _, ok := strings.Cut(string(d), ":")
	return ok && indepDigest(alg, data) == string(d)
}

// c01Stack returns the registry under test, the repository name to use on it,
// and (for the raw single-POST path) an HTTP handler over the same backend.
func c01Stack(name string) (reg ociregistry.Interface, handler http.Handler) {
	mem := ocimem.New()
	switch name {
	case "mem":
		return mem, ociserver.New(mem, nil)
	case "http1":
		c, _ := httpStack(mem, nil, nil)
		return c, ociserver.New(mem, nil)
	case "dbg":
		q := func(string, ...any) {}
		c, _ := httpStack(ocidebug.New(mem, q), nil, nil)
		return ocidebug.New(c, q), nil
	case "sel":
		c, _ := httpStack(mem, nil, nil)
		return ocifilter.Select(c, func(string) bool { return true }), nil
	case "sub":
		c, _ := httpStack(mem, nil, nil)
		return ocifilter.Sub(c, "p"), nil
	case "uni-seq":
		return ociunify.New(strictMember{mem}, strictMember{ocimem.New()}, &ociunify.Options{ReadPolicy: ociunify.ReadSequential}), nil
	case "uni-conc":
		c, _ := httpStack(ocimem.New(), nil, nil)
		return ociunify.New(strictMember{mem}, c, &ociunify.Options{ReadPolicy: ociunify.ReadConcurrent}), nil
	case "http2":
		inner, _ := httpStack(mem, nil, nil)
		c, _ := httpStack(inner, nil, nil)
		return c, nil
	}
	panic("unknown stack " + name)
}

var c01Stacks = []string{"mem", "http1", "dbg", "sel", "sub", "uni-seq", "uni-conc", "http2"}

func readAllOf(rd ociregistry.BlobReader, err error) ([]byte, ociregistry.Descriptor, error) {
	if err != nil {
		return nil, ociregistry.Descriptor{}, err
	}
	defer rd.Close()
	desc := rd.Descriptor()
	data, err := io.ReadAll(rd)
	return data, desc, err
}

// push performs the push path; it returns whether the registry accepted it.
func c01Push(ctx context.Context, reg ociregistry.Interface, handler http.Handler, c c01Case, desc ociregistry.Descriptor) (accepted bool, err error) {
	data := append([]byte(nil), c.Content...)
	defer scribble(data) // the caller reuses its buffer after the push has returned
	switch c.Path {
	case "PushBlob":
		_, err = reg.PushBlob(ctx, "r", desc, bytes.NewReader(data))
	case "chunked":
		var w ociregistry.BlobWriter
		w, err = reg.PushBlobChunked(ctx, "r", 0)
		if err != nil {
			return false, err
		}
		if c.Split > 0 {
			if _, err = w.Write(data[:c.Split]); err == nil {
				_, err = w.Write(data[c.Split:])
			}
		} else {
			_, err = w.Write(data)
		}
		if err != nil {
			return false, err
		}
		_, err = w.Commit(desc.Digest)
	case "single-post":
		req := httptest.NewRequest("POST", "/v2/r/blobs/uploads/?digest="+string(desc.Digest), bytes.NewReader(data))
		req.ContentLength = desc.Size
		rec := httptest.NewRecorder()
		handler.ServeHTTP(rec, req)
		if rec.Code/100 != 2 {
			err = fmt.Errorf("status %d: %s", rec.Code, rec.Body.String())
		}
	case "mount":
		// content first pushed to a sibling repository, then mounted
		if _, err = reg.PushBlob(ctx, "s", descOf(mtOctet, data), bytes.NewReader(data)); err != nil {
			return false, fmt.Errorf("setup push to sibling failed: %w", err)
		}
		_, err = reg.MountBlob(ctx, "s", "r", desc.Digest)
	case "manifest-tag":
		_, err = reg.PushManifest(ctx, "r", "t", data, mtOpaque)
	case "manifest-digest":
		_, err = reg.PushManifest(ctx, "r", "", data, mtOpaque)
	case "manifest-raw-put":
		req := httptest.NewRequest("PUT", "/v2/r/manifests/"+string(desc.Digest), bytes.NewReader(data))
		req.Header.Set("Content-Type", mtOpaque)
		rec := httptest.NewRecorder()
		handler.ServeHTTP(rec, req)
		if rec.Code/100 != 2 {
			err = fmt.Errorf("status %d: %s", rec.Code, rec.Body.String())
		}
	}
	return err == nil, err
}

func c01Run(r *vcore.Run, c c01Case) (reads int64) {
	ctx := context.Background()
	reg, handler := c01Stack(c.Stack)
	fp := fmt.Sprintf("C01/%s/%s", c.Stack, c.Path)
	n := int64(len(c.Content))
	good := ociregistry.Descriptor{MediaType: mtOctet, Digest: ociregistry.Digest(indepDigest("sha256", c.Content)), Size: n}
	desc := good
	other := append(append([]byte(nil), c.Content...), 'Z')
	switch c.Bad {
	case "digest":
		desc.Digest = ociregistry.Digest(indepDigest("sha256", other))
	case "size+1":
		desc.Size++
	case "size-1":
		desc.Size--
	case "both":
		desc.Digest = ociregistry.Digest(indepDigest("sha256", other))
		desc.Size++
	case "sha512-wrong":
		desc.Digest = ociregistry.Digest(indepDigest("sha512", other))
	case "sha512-right":
		desc.Digest = ociregistry.Digest(indepDigest("sha512", c.Content))
	case "prefix":
		// the descriptor is right for the content without its last byte: the stream carries one byte more
		// than declared, and what was declared is exactly what a reader stopping at the size would see
		desc = ociregistry.Descriptor{MediaType: mtOctet, Digest: ociregistry.Digest(indepDigest("sha256", c.Content[:n-1])), Size: n - 1}
	}
	r.Guard("content", fp, c, func() {
		var honest []byte
		if c.Pre {
			honest = c.Content
			if c.Bad == "digest" || c.Bad == "both" {
				honest = other
			}
			if c.Bad == "prefix" {
				honest = c.Content[:n-1]
			}
			fp += "/declared-digest-already-present"
			if _, err := reg.PushBlob(ctx, "r", descOf(mtOctet, honest), bytes.NewReader(honest)); err != nil {
				r.Violate("content", fp+"/setup-push-refused", c, "accepted", err.Error())
				return
			}
		}
		accepted, perr := c01Push(ctx, reg, handler, c, desc)
		isManifest := strings.HasPrefix(c.Path, "manifest")
		get := func(d ociregistry.Digest) ([]byte, ociregistry.Descriptor, error) {
			if isManifest {
				return readAllOf(reg.GetManifest(ctx, "r", d))
			}
			return readAllOf(reg.GetBlob(ctx, "r", d))
		}
		if c.Bad != "" && c.Bad != "sha512-right" {
			if accepted {
				r.Violate("content", fp+"/inconsistent-descriptor-accepted/"+c.Bad, c, "push rejected", "accepted")
			}
			// nothing retrievable under the declared digest
			reads++
			if data, _, err := get(desc.Digest); c.Pre {
				// the earlier, honest content stays what the digest names
				if err != nil || !bytes.Equal(data, honest) {
					r.Violate("content", fp+"/honest-content-disturbed/"+c.Bad, c, fmt.Sprintf("%q", honest), fmt.Sprintf("%q %v", data, err))
				}
			} else if err == nil {
				r.Violate("content", fp+"/retrievable-after-rejection/"+c.Bad, c, "nothing under the declared digest", fmt.Sprintf("%q", data))
			}
			r.Outcome("rejected")
			return
		}
		if !accepted {
			if c.Bad == "sha512-right" {
				r.Outcome("sha512-refused") // a registry may support only sha256 for storage
				return
			}
			r.Violate("content", fp+"/consistent-push-refused", c, "accepted", fmt.Sprint(perr))
			return
		}
		// every complete-read entry point
		check := func(what string, data []byte, d ociregistry.Descriptor, err error, wantDigest ociregistry.Digest) {
			reads++
			if err != nil {
				r.Violate("content", fp+"/"+what+"/read-failed", c, "pushed bytes", err.Error())
				return
			}
			if !bytes.Equal(data, c.Content) {
				r.Violate("content", fp+"/"+what+"/bytes-differ", c, fmt.Sprintf("%q", c.Content), fmt.Sprintf("%q", data))
			}
			if !digestMatches(d.Digest, data) || (wantDigest != "" && d.Digest != wantDigest) {
				r.Violate("content", fp+"/"+what+"/digest-differs", c, string(wantDigest), string(d.Digest))
			}
			if d.Size != int64(len(data)) {
				r.Violate("content", fp+"/"+what+"/size-differs", c, fmt.Sprint(len(data)), fmt.Sprint(d.Size))
			}
		}
		data, d, err := get(desc.Digest)
		check("Get", data, d, err, desc.Digest)
		if isManifest {
			rd, err := reg.ResolveManifest(ctx, "r", desc.Digest)
			check("ResolveManifest", c.Content, rd, err, desc.Digest)
			if c.Path == "manifest-tag" {
				data, d, err := readAllOf(reg.GetTag(ctx, "r", "t"))
				check("GetTag", data, d, err, desc.Digest)
				rd, err := reg.ResolveTag(ctx, "r", "t")
				check("ResolveTag", c.Content, rd, err, desc.Digest)
			}
			r.Outcome("manifest-ok")
			return
		}
		rd, err := reg.ResolveBlob(ctx, "r", desc.Digest)
		check("ResolveBlob", c.Content, rd, err, desc.Digest)
		// every range pair (all pairs for small contents, boundary pairs for large ones)
		var o0s, o1s []int64
		if n <= 5 {
			for o := int64(0); o <= n+1; o++ {
				o0s = append(o0s, o)
			}
			for o := int64(-1); o <= n+2; o++ {
				o1s = append(o1s, o)
			}
		} else {
			o0s = []int64{0, 1, n - 1, n, n + 1}
			o1s = []int64{-1, 0, 1, n - 1, n, n + 1}
		}
		for _, o0 := range o0s {
			for _, o1 := range o1s {
				if o1 >= 0 && o1 <= o0 && c.Stack != "mem" && c.Stack != "uni-seq" {
					continue // empty / inverted ranges over HTTP: known finding of C03, not re-reported here
				}
				reads++
				got, d, err := readAllOf(reg.GetBlobRange(ctx, "r", desc.Digest, o0, o1))
				end := o1
				if end < 0 || end > n {
					end = n
				}
				if o0 > end {
					if err == nil {
						r.Violate("content", fp+"/range/unsatisfiable-range-served", c, "error", fmt.Sprintf("[%d,%d) -> %q", o0, o1, got))
					}
					continue
				}
				if err != nil {
					r.Violate("content", fp+"/range/read-failed", c, fmt.Sprintf("[%d,%d) -> %q", o0, o1, c.Content[o0:end]), err.Error())
					continue
				}
				if !bytes.Equal(got, c.Content[o0:end]) {
					r.Violate("content", fp+"/range/wrong-slice", c, fmt.Sprintf("[%d,%d) -> %q", o0, o1, c.Content[o0:end]), fmt.Sprintf("%q", got))
				}
				if d.Size != n || d.Digest != desc.Digest {
					r.Violate("content", fp+"/range/does-not-describe-whole-blob", c, fmt.Sprintf("%s/%d", desc.Digest, n), descText(d))
				}
			}
		}
		r.Outcome("blob-ok")
	})
	return reads
}

// ---- (d) corrupted responses ----

type c01Corruption struct {
	Entry   string   `json:"entry"` // GetBlob, GetManifest, GetTag
	Content []byte   `json:"content"`
	Mods    []string `json:"corruptions"`
	Drain   string   `json:"drain,omitempty"` // how the consumer reads: "" = io.ReadAll, "copy-buffer", "copy-writer", "byte-reads", "one-big-read"
}

// plainWriter hides every optional interface of the destination (no ReadFrom).
type plainWriter struct{ b *bytes.Buffer }

func (w plainWriter) Write(p []byte) (int, error) { return w.b.Write(p) }

// c01Drain consumes a reader to its end the way callers do; every way must report a mismatch.
func c01Drain(rd io.Reader, mode string) ([]byte, error) {
	switch mode {
	case "copy-buffer":
		var b bytes.Buffer
		_, err := io.Copy(&b, rd) // uses rd's WriteTo when it has one, else the buffer's ReadFrom
		return b.Bytes(), err
	case "copy-writer":
		var b bytes.Buffer
		_, err := io.Copy(plainWriter{&b}, rd)
		return b.Bytes(), err
	case "byte-reads":
		var out []byte
		one := make([]byte, 1)
		for {
			n, err := rd.Read(one)
			out = append(out, one[:n]...)
			if err == io.EOF {
				return out, nil
			}
			if err != nil {
				return out, err
			}
		}
	case "one-big-read":
		big := make([]byte, 1<<16)
		var out []byte
		for {
			n, err := rd.Read(big)
			out = append(out, big[:n]...)
			if err == io.EOF {
				return out, nil
			}
			if err != nil {
				return out, err
			}
		}
	}
	return io.ReadAll(rd)
}

func c01Mods(n int) []string {
	mods := []string{"append1", "append2", "replace", "cl+1", "cl-1", "cl-absent", "cl-garbage", "cl-zero",
		"dg-other", "dg-malformed", "dg-absent", "dg-sha512-right", "dg-sha512-wrong", "status-206"}
	for i := 0; i < n; i++ {
		mods = append(mods, fmt.Sprintf("flip%d", i))
	}
	for k := 0; k < n; k++ {
		mods = append(mods, fmt.Sprintf("trunc%d", k))
	}
	return mods
}

func c01Apply(mod string, content []byte, header http.Header, body *[]byte, status *int) (unknownLen bool) {
	other := append(append([]byte(nil), content...), 'Z')
	switch {
	case strings.HasPrefix(mod, "flip"):
		var i int
		fmt.Sscanf(mod, "flip%d", &i)
		if i < len(*body) {
			b := append([]byte(nil), *body...)
			b[i] ^= 0x20
			*body = b
		}
	case strings.HasPrefix(mod, "trunc"):
		var k int
		fmt.Sscanf(mod, "trunc%d", &k)
		if k < len(*body) {
			*body = (*body)[:k]
		}
	case mod == "append1":
		*body = append(append([]byte(nil), *body...), 'X')
	case mod == "append2":
		*body = append(append([]byte(nil), *body...), 'X', 'Y')
	case mod == "replace":
		*body = []byte(strings.Repeat("R", len(*body)))
	case mod == "cl+1":
		header.Set("Content-Length", fmt.Sprint(len(content)+1))
	case mod == "cl-1":
		if len(content) > 0 {
			header.Set("Content-Length", fmt.Sprint(len(content)-1))
		}
	case mod == "cl-zero":
		header.Set("Content-Length", "0")
	case mod == "cl-absent":
		header.Del("Content-Length")
		return true
	case mod == "cl-garbage":
		header.Set("Content-Length", "12x")
	case mod == "dg-other":
		header.Set("Docker-Content-Digest", indepDigest("sha256", other))
	case mod == "dg-malformed":
		header.Set("Docker-Content-Digest", "sha256:xyz")
	case mod == "dg-absent":
		header.Del("Docker-Content-Digest")
	case mod == "dg-sha512-right":
		header.Set("Docker-Content-Digest", indepDigest("sha512", content))
	case mod == "dg-sha512-wrong":
		header.Set("Docker-Content-Digest", indepDigest("sha512", other))
	case mod == "status-206":
		*status = 206
		header.Set("Content-Range", fmt.Sprintf("bytes 0-%d/%d", len(content)-1, len(content)))
	}
	return false
}

func c01RunCorruption(r *vcore.Run, c c01Corruption) {
	ctx := context.Background()
	mem := ocimem.New()
	var dig ociregistry.Digest
	if strings.HasPrefix(c.Entry, "GetBlob") {
		d, err := mem.PushBlob(ctx, "r", descOf(mtOctet, c.Content), bytes.NewReader(c.Content))
		if err != nil {
			panic(err)
		}
		dig = d.Digest
	} else {
		d, err := mem.PushManifest(ctx, "r", "t", c.Content, mtOpaque)
		if err != nil {
			panic(err)
		}
		dig = d.Digest
	}
	client, tr := httpStack(mem, nil, nil)
	tr.Mangle = func(req *http.Request, status *int, header http.Header, body *[]byte) bool {
		if req.Method != "GET" || (*status != 200 && !(*status == 206 && strings.HasPrefix(c.Entry, "GetBlobRange"))) {
			return false
		}
		unknown := false
		for _, m := range c.Mods {
			if c01Apply(m, c.Content, header, body, status) {
				unknown = true
			}
		}
		return unknown
	}
	fp := "C01/corrupt/" + c.Entry
	r.Guard("corrupt", fp, c, func() {
		var rd ociregistry.BlobReader
		var err error
		switch c.Entry {
		case "GetBlob":
			rd, err = client.GetBlob(ctx, "r", dig)
		case "GetManifest":
			rd, err = client.GetManifest(ctx, "r", dig)
		case "GetTag":
			rd, err = client.GetTag(ctx, "r", "t")
		case "GetBlobWholeRange":
			// the whole blob asked for as a range: a complete read like any other
			rd, err = client.GetBlobRange(ctx, "r", dig, 0, -1)
		case "GetBlobRange":
			rd, err = client.GetBlobRange(ctx, "r", dig, 0, -1)
		case "GetBlobRangeInner":
			rd, err = client.GetBlobRange(ctx, "r", dig, 1, int64(len(c.Content)))
		}
		if err != nil {
			r.Outcome("open-failed")
			return
		}
		if strings.HasPrefix(c.Entry, "GetBlobRange") {
			// range readers are not digest-verified, but a body cut short of what the response
			// announced is still an error, never a clean end with a prefix of the slice
			wantLen := len(c.Content)
			if c.Entry == "GetBlobRangeInner" {
				wantLen--
			}
			data, rerr := c01Drain(rd, c.Drain)
			rd.Close()
			if rerr == nil && len(data) < wantLen {
				r.Violate("corrupt", fp+"/short-range-body-with-clean-eof/"+c.Drain, c, fmt.Sprintf("%d bytes or an error", wantLen), fmt.Sprintf("clean EOF after %d bytes %q", len(data), data))
			}
			r.Outcome("range-read")
			return
		}
		desc := rd.Descriptor()
		data, rerr := c01Drain(rd, c.Drain)
		rd.Close()
		if rerr != nil {
			r.Outcome("read-error")
			return
		}
		// clean end of stream: the delivered bytes must match the reader's descriptor
		if int64(len(data)) != desc.Size || !digestMatches(desc.Digest, data) {
			classes := make([]string, len(c.Mods))
			for i, m := range c.Mods {
				classes[i] = strings.TrimRight(m, "0123456789")
			}
			how := ""
			if c.Drain != "" {
				how = "/" + c.Drain
			}
			r.Violate("corrupt", fp+"/mismatch-with-clean-eof/"+strings.Join(classes, "+")+how, c, "an error before end of stream",
				fmt.Sprintf("clean EOF after %q (%d bytes) with descriptor %s", data, len(data), descText(desc)))
			return
		}
		if bytes.Equal(data, c.Content) {
			r.Outcome("intact")
		} else {
			r.Outcome("consistent-but-different")
		}
	})
}

func c01Contents(thorough bool) [][]byte {
	sigma := []byte{0x00, 'a', 0xC3}
	maxLen := 3
	if thorough {
		maxLen = 4
	}
	out := [][]byte{{}}
	prev := [][]byte{{}}
	for l := 1; l <= maxLen; l++ {
		var next [][]byte
		for _, p := range prev {
			for _, s := range sigma {
				next = append(next, append(append([]byte(nil), p...), s))
			}
		}
		out = append(out, next...)
		prev = next
	}
	big := func(n int) []byte {
		b := make([]byte, n)
		for i := range b {
			b[i] = byte(i*7 + i/251)
		}
		return b
	}
	out = append(out, big(5), big(8191), big(8192), big(8193))
	// around the 4 MiB the distribution specification names as the manifest size registries should support
	out = append(out, big(4<<20-1), big(4<<20), big(4<<20+1))
	if thorough {
		out = append(out, big(16385), big(131072), big(131073))
	}
	return out
}

func c01Check(r *vcore.Run) vcore.Coverage {
	contents := c01Contents(r.Thorough())
	var cases []c01Case
	for _, st := range c01Stacks {
		for _, content := range contents {
			paths := []string{"PushBlob", "chunked", "mount", "manifest-tag", "manifest-digest"}
			if st == "mem" || st == "http1" {
				paths = append(paths, "single-post", "manifest-raw-put")
			}
			for _, p := range paths {
				if len(content) > 10000 && (st != "http1" && st != "mem" && st != "http2") {
					continue
				}
				if len(content) > 1<<20 && (st == "http2" || p == "chunked" || p == "mount" || p == "single-post" || p == "manifest-raw-put") {
					continue
				}
				cases = append(cases, c01Case{Stack: st, Path: p, Content: content})
				if p == "chunked" {
					for i := 1; i < len(content) && (len(content) <= 5 || i == 1 || i == len(content)-1 || i == 8192); i++ {
						cases = append(cases, c01Case{Stack: st, Path: p, Content: content, Split: i})
					}
				}
				// inconsistent descriptors (only where the path takes a caller-declared descriptor)
				if (p == "PushBlob" || p == "chunked" || p == "single-post" || p == "mount" || p == "manifest-raw-put") && len(content) <= 5 {
					bads := []string{"digest", "sha512-wrong", "sha512-right"}
					if p == "PushBlob" || p == "single-post" {
						bads = append(bads, "size+1", "size-1", "both", "prefix")
					}
					for _, b := range bads {
						if (b == "size-1" || b == "prefix") && len(content) == 0 {
							continue
						}
						if (p == "mount") && b != "digest" {
							continue
						}
						cases = append(cases, c01Case{Stack: st, Path: p, Content: content, Bad: b})
						if p != "mount" && p != "manifest-raw-put" && !strings.HasPrefix(b, "sha512") {
							cases = append(cases, c01Case{Stack: st, Path: p, Content: content, Bad: b, Pre: true})
						}
					}
				}
			}
		}
	}
	var reads int64
	vcore.ParallelN(len(cases), func(i int) { atomic.AddInt64(&reads, c01Run(r, cases[i])) })
	// (d) corrupted responses: k <= 2 simultaneous corruptions
	var corr []c01Corruption
	small := [][]byte{{}, {'a'}, {0x00, 0xC3}, []byte("abc"), []byte(`{"a":1}`)}
	for _, entry := range []string{"GetBlob", "GetManifest", "GetTag", "GetBlobWholeRange"} {
		for _, content := range small {
			mods := c01Mods(len(content))
			corr = append(corr, c01Corruption{Entry: entry, Content: content})
			for i, m1 := range mods {
				corr = append(corr, c01Corruption{Entry: entry, Content: content, Mods: []string{m1}})
				for _, m2 := range mods[i+1:] {
					if !r.Thorough() && len(content) > 2 && strings.HasPrefix(m1, "flip") && strings.HasPrefix(m2, "flip") {
						continue
					}
					corr = append(corr, c01Corruption{Entry: entry, Content: content, Mods: []string{m1, m2}})
				}
			}
		}
	}
	// every way of consuming the reader (io.ReadAll, io.Copy with and without the reader's own WriteTo
	// being usable, byte-sized reads, one oversized read)
	base := len(corr)
	for _, drain := range []string{"copy-buffer", "copy-writer", "byte-reads", "one-big-read"} {
		for _, c := range corr[:base] {
			if len(c.Mods) == 2 && !r.Thorough() && drain != "copy-buffer" {
				continue
			}
			c.Drain = drain
			corr = append(corr, c)
		}
	}
	// range reads: the body cut short at every length, headers left as the server wrote them
	for _, entry := range []string{"GetBlobRange", "GetBlobRangeInner"} {
		for _, content := range small {
			if len(content) < 2 {
				continue
			}
			for k := 0; k < len(content); k++ {
				for _, drain := range []string{"", "copy-buffer", "copy-writer", "byte-reads", "one-big-read"} {
					corr = append(corr, c01Corruption{Entry: entry, Content: content, Mods: []string{fmt.Sprintf("trunc%d", k)}, Drain: drain})
				}
			}
		}
	}
	vcore.ParallelN(len(corr), func(i int) { c01RunCorruption(r, corr[i]) })
	// (c) interleaving with other pushes, deletes and upload-session reuse: history search with the byte/digest sweep
	u := newUniverse()
	hcfg := alphabetConfig{Repos: u.Repos, Chunked: true, MaxUploads: 1, MaxUpload: 3, Manifests: []int{0}, Blobs: []int{1, 2}, Deletes: true, Mounts: true, UntaggedToo: true, Tags: []string{"t"}, FinishedOps: true}
	hdepth := 2
	if r.Thorough() {
		hdepth = 3
	}
	hst := vstate.BFS(vstate.Spec[Op]{
		New:      func() vstate.System[Op] { s := newMemSys(r, "C01", u, hcfg, false); s.sub = "history"; return s },
		MaxDepth: hdepth, Deadline: 5 * time.Minute,
		Seeds: [][]Op{
			{{K: "PushBlob", Repo: "r", B: 1}, {K: "Start", Repo: "r"}, {K: "Write", H: 0, Piece: "bc"}, {K: "Commit", H: 0}},
			{{K: "Start", Repo: "r"}, {K: "Write", H: 0, Piece: "a"}, {K: "Commit", H: 0}, {K: "Cancel", H: 0}},
			{{K: "PushBlob", Repo: "s", B: 2}, {K: "Start", Repo: "r"}, {K: "Write", H: 0, Piece: "a"}},
		},
	})
	r.Notes["history_search"] = map[string]any{"states": hst.States, "transitions": hst.Transitions, "completed_depth": hst.Depth, "per_depth_new_states": hst.PerDepth}
	for _, h := range hst.Samples {
		r.Sample("history", opsText(h))
	}
	r.Sample("content", c01Case{Stack: "http2", Path: "chunked", Content: []byte{0x00, 'a', 0xC3}, Split: 1})
	r.Sample("rejection", c01Case{Stack: "http1", Path: "single-post", Content: []byte("a"), Bad: "size+1"})
	r.Sample("corruption", c01Corruption{Entry: "GetTag", Content: []byte("abc"), Mods: []string{"flip1", "dg-absent"}})
	r.Notes["contents"] = len(contents)
	r.Notes["push_read_cases"] = len(cases)
	r.Notes["reads"] = reads
	r.Notes["corruption_scripts"] = len(corr)
	r.Assume = []string{
		"the third sentence (mismatch => error, never clean EOF) is applied to complete reads; a range read's body cannot be checked against the whole-blob digest (client range readers are unverified by design)",
		"digests are recomputed with crypto/sha256 and crypto/sha512 directly",
		"interleaving with other pushes, deletes and upload-session reuse: a history search on ocimem (same engine as C02) whose sweep compares bytes, sizes and digests of everything ever committed, in every reached state; the HTTP variants of the same invariant are in C03's lock-step search",
		"empty/inverted ranges over HTTP are C03's known finding and are not re-reported here",
	}
	return vcore.Coverage{States: int64(len(cases)+len(corr)) + hst.States, Transitions: reads + int64(len(corr)) + hst.Transitions, TracesImpl: int64(len(cases)+len(corr)) + hst.Transitions, Evaluations: int64(len(cases) + len(corr)), Nontrivial: int64(len(corr)) + reads, Exhaustive: true,
		Rule: fmt.Sprintf("(a)/(b): every byte string of length 0..%d over {NUL, 'a', 0xC3} plus lengths 5, 8191-8193 (thorough: 16385, 131072/3) x push paths {PushBlob, chunked whole and split at every position, raw single POST, mount, manifest by tag, by digest, raw PUT by digest} x 8 stacks x every complete-read entry point and every (offset0, offset1) pair, and every inconsistent descriptor kind; (d): every single and every pair of response corruptions (byte flips at every position, truncation to every length, appended bytes, replaced body, Content-Length +-1/0/absent/garbage, Docker-Content-Digest other/malformed/absent/sha512 right/wrong, status 206) for GetBlob/GetManifest/GetTag; non-trivial = reads + corruption scripts", map[bool]int{false: 3, true: 4}[r.Thorough()])}
}

func c01Replay(r *vcore.Run, sub string, raw json.RawMessage) {
	if sub == "history" {
		var c c02Case
		if json.Unmarshal(raw, &c) == nil {
			u := newUniverse()
			s := newMemSys(r, "C01", u, c02Alphabet(u, "quick", true), false)
			for _, op := range c.History {
				if s.Apply(op, true) {
					return
				}
			}
		}
		return
	}
	if sub == "corrupt" {
		var c c01Corruption
		if json.Unmarshal(raw, &c) == nil {
			c01RunCorruption(r, c)
		}
		return
	}
	var c c01Case
	if json.Unmarshal(raw, &c) == nil {
		c01Run(r, c)
	}
}
