package props

import (
	"context"
	"encoding/json"
	"errors"
	"fmt"
	"io"
	"reflect"
	"strings"
	"sync/atomic"
	"time"

	"cuelabs.dev/go/oci/ociregistry"

	"verif/vcore"
)

// C20: Funcs is total. E4 exhaustive enumeration over set/unset assignments.

func init() {
	vcore.Register(&vcore.Prop{ID: "C20", Level: "exploration", Engine: "E4-enum", Check: c20Check, Replay: c20Replay})
}

type c20Case struct {
	Method      string `json:"method"`
	Mask        uint32 `json:"mask"` // bit i set <=> i-th function field (declaration order, NewError excluded) is set
	SetFields   string `json:"set_fields"`
	NilReceiver bool   `json:"nil_receiver"`
	Constructor bool   `json:"constructor"`
	ArgVariant  int    `json:"arg_variant"` // index into the cross product of per-parameter menus (0 = all distinctive)
	Args        string `json:"args,omitempty"`
	Flavour     int    `json:"delegate_error_flavour"` // 0 plain error, 1 an error that is ErrUnsupported, 2 nil
}

type c20Env struct {
	ftype   reflect.Type
	fields  []reflect.StructField // function fields other than NewError
	methods []reflect.Method      // methods matching fields, same index
	// per-field recording function and record slot
	fns      []reflect.Value
	calls    []*c20Call
	ctorErr  error
	ctorHits int
	vecs     [][][]reflect.Value
	derr     error // what the recording delegates return as their error (see c20Flavours)
	flavour  int
}

type c20Call struct {
	hits int
	args []reflect.Value
}

type c20Reader struct{ io.Reader }

func (c20Reader) Close() error                       { return nil }
func (c20Reader) Descriptor() ociregistry.Descriptor { return ociregistry.Descriptor{Size: 4242} }

type c20Writer struct{ ociregistry.BlobWriter }

var (
	c20SentinelErr = errors.New("c20 delegate sentinel error")
	// what the delegates return as their error: a plain error, one that IS an unsupported-operation
	// error (the documented answer of a registry that cannot mount, say), or none
	c20Flavours       = []error{c20SentinelErr, fmt.Errorf("c20 delegate cannot do this: %w", ociregistry.ErrUnsupported), nil}
	c20SentinelReader = &c20Reader{}
	c20SentinelWriter = &c20Writer{}
	c20ArgReader      = strings.NewReader("c20 arg reader")
	c20Ctx            = context.WithValue(context.Background(), c20Key{}, "c20ctx")
	c20CtxCancelled   = func() context.Context {
		ctx, cancel := context.WithCancel(c20Ctx)
		cancel()
		return ctx
	}()
	c20CtxExpired = func() context.Context {
		ctx, cancel := context.WithDeadline(c20Ctx, time.Unix(1, 0))
		_ = cancel
		return ctx
	}()
)

type c20Key struct{}

func newC20Env() *c20Env {
	e := &c20Env{ftype: reflect.TypeOf(ociregistry.Funcs{})}
	ptr := reflect.TypeOf(&ociregistry.Funcs{})
	for i := 0; i < e.ftype.NumField(); i++ {
		f := e.ftype.Field(i)
		if f.Type.Kind() != reflect.Func || f.Name == "NewError" {
			continue
		}
		mname := strings.TrimSuffix(f.Name, "_")
		m, ok := ptr.MethodByName(mname)
		if !ok {
			panic("no method for field " + f.Name)
		}
		e.fields = append(e.fields, f)
		e.methods = append(e.methods, m)
	}
	e.ctorErr = errors.New("c20 constructor error")
	e.derr = c20Flavours[0]
	for i, f := range e.fields {
		i, f := i, f
		call := &c20Call{}
		e.calls = append(e.calls, call)
		e.fns = append(e.fns, reflect.MakeFunc(f.Type, func(args []reflect.Value) []reflect.Value {
			call.hits++
			call.args = args
			out := make([]reflect.Value, f.Type.NumOut())
			for j := range out {
				out[j] = c20Result(f.Type.Out(j), i, e.derr)
			}
			return out
		}))
	}
	return e
}

var errType = reflect.TypeOf((*error)(nil)).Elem()

func c20Result(t reflect.Type, k int, derr error) reflect.Value {
	v := reflect.New(t).Elem()
	switch {
	case t == errType:
		if derr != nil {
			v.Set(reflect.ValueOf(derr))
		}
	case t == reflect.TypeOf((*ociregistry.BlobReader)(nil)).Elem():
		v.Set(reflect.ValueOf(c20SentinelReader))
	case t == reflect.TypeOf((*ociregistry.BlobWriter)(nil)).Elem():
		v.Set(reflect.ValueOf(c20SentinelWriter))
	case t == reflect.TypeOf(ociregistry.Descriptor{}):
		v.Set(reflect.ValueOf(ociregistry.Descriptor{Size: int64(7000 + k), MediaType: "c20/result"}))
	case t == reflect.TypeOf(ociregistry.Seq[string](nil)):
		v.Set(reflect.ValueOf(ociregistry.Seq[string](func(y func(string, error) bool) {
			if y(fmt.Sprint("c20seq", k), nil) {
				if derr != nil {
					y(fmt.Sprint("c20seq-second", k), derr)
				} else {
					y(fmt.Sprint("c20seq-second", k), nil)
				}
			}
		})))
	case t == reflect.TypeOf(ociregistry.Seq[ociregistry.Descriptor](nil)):
		v.Set(reflect.ValueOf(ociregistry.Seq[ociregistry.Descriptor](func(y func(ociregistry.Descriptor, error) bool) {
			if y(ociregistry.Descriptor{Size: int64(9000 + k)}, nil) {
				y(ociregistry.Descriptor{Size: int64(9500 + k)}, derr)
			}
		})))
	default:
		panic("c20: unhandled result type " + t.String())
	}
	return v
}

// c20ArgMenu returns the small menu of values for one parameter: a
// distinctive value first, then the boundary values a shortcut could key on.
func c20ArgMenu(t reflect.Type, k int) []reflect.Value {
	d := c20Arg(t, k)
	z := reflect.New(t).Elem()
	switch {
	case t == reflect.TypeOf((*context.Context)(nil)).Elem():
		// the table neither delegates differently nor fails differently for a context that is already done
		c, x := reflect.New(t).Elem(), reflect.New(t).Elem()
		c.Set(reflect.ValueOf(c20CtxCancelled))
		x.Set(reflect.ValueOf(c20CtxExpired))
		return []reflect.Value{d, c, x}
	case t.Kind() == reflect.String:
		// a string that would consume operands if it ever ended up inside a format string
		p := reflect.New(t).Elem()
		p.SetString("r%s/%d%v%")
		// a string spelled like a digest, whatever the parameter is for (a tag may look like one): which
		// function a call is delegated to depends on the method alone, never on what its arguments look like
		g := reflect.New(t).Elem()
		g.SetString("sha256:" + strings.Repeat("0123456789abcdef", 4))
		return []reflect.Value{d, z, g, p}
	case t == reflect.TypeOf(ociregistry.Descriptor{}):
		return []reflect.Value{d, z}
	case t.Kind() == reflect.Slice:
		return []reflect.Value{d, z}
	case t.Kind() == reflect.Int64 || t.Kind() == reflect.Int:
		m := reflect.New(t).Elem()
		m.SetInt(-1)
		return []reflect.Value{d, z, m}
	}
	return []reflect.Value{d}
}

// c20ArgVectors enumerates the cross product of the parameter menus.
func c20ArgVectors(m reflect.Method) [][]reflect.Value {
	vecs := [][]reflect.Value{nil}
	for j := 1; j < m.Type.NumIn(); j++ {
		var next [][]reflect.Value
		for _, alt := range c20ArgMenu(m.Type.In(j), j) {
			for _, v := range vecs {
				next = append(next, append(append([]reflect.Value(nil), v...), alt))
			}
		}
		vecs = next
	}
	return vecs
}

func c20Arg(t reflect.Type, k int) reflect.Value {
	v := reflect.New(t).Elem()
	switch {
	case t == reflect.TypeOf((*context.Context)(nil)).Elem():
		v.Set(reflect.ValueOf(c20Ctx))
	case t == reflect.TypeOf((*io.Reader)(nil)).Elem():
		v.Set(reflect.ValueOf(c20ArgReader))
	case t == reflect.TypeOf(ociregistry.Descriptor{}):
		v.Set(reflect.ValueOf(ociregistry.Descriptor{Size: int64(100 + k), MediaType: "c20/arg"}))
	case t.Kind() == reflect.String:
		v.SetString(fmt.Sprintf("arg%d", k))
	case t.Kind() == reflect.Int64 || t.Kind() == reflect.Int:
		v.SetInt(int64(1000 + k))
	case t.Kind() == reflect.Slice && t.Elem().Kind() == reflect.Uint8:
		v.SetBytes([]byte{byte(k), 0, 0xC3})
	default:
		panic("c20: unhandled arg type " + t.String())
	}
	return v
}

// drain collects what a Seq-typed reflect value yields (at most 5 items).
func c20Drain(v reflect.Value) string {
	if v.IsNil() {
		return "nil-seq"
	}
	var sb strings.Builder
	n := 0
	yieldT := v.Type().In(0)
	y := reflect.MakeFunc(yieldT, func(args []reflect.Value) []reflect.Value {
		n++
		fmt.Fprintf(&sb, "[%v|%v]", args[0].Interface(), args[1].Interface())
		return []reflect.Value{reflect.ValueOf(n < 5)}
	})
	v.Call([]reflect.Value{y})
	return sb.String()
}

// c20DrainN runs the iterator and declines after n items.
func c20DrainN(v reflect.Value, stop int) string {
	if v.IsNil() {
		return "nil-seq"
	}
	var sb strings.Builder
	n := 0
	y := reflect.MakeFunc(v.Type().In(0), func(args []reflect.Value) []reflect.Value {
		n++
		fmt.Fprintf(&sb, "[%v|%v]", args[0].Interface(), args[1].Interface())
		return []reflect.Value{reflect.ValueOf(n < stop)}
	})
	v.Call([]reflect.Value{y})
	return sb.String()
}

func c20Same(a, b reflect.Value) bool {
	if a.Kind() == reflect.Func {
		// the returned iterator is the delegate's: stopped early, run again, run fully - always like the delegate's
		return c20DrainN(a, 1) == c20DrainN(b, 1) && c20Drain(a) == c20Drain(b) && c20Drain(a) == c20Drain(b)
	}
	if a.Kind() == reflect.Interface || a.Kind() == reflect.Ptr {
		if a.IsNil() || b.IsNil() {
			return a.IsNil() == b.IsNil()
		}
		return a.Interface() == b.Interface()
	}
	return reflect.DeepEqual(a.Interface(), b.Interface())
}

func (e *c20Env) fieldNames(mask uint32) string {
	var s []string
	for i, f := range e.fields {
		if mask&(1<<i) != 0 {
			s = append(s, f.Name)
		}
	}
	return strings.Join(s, ",")
}

// run executes one case; returns fingerprint-suffix/expected/observed on failure.
func (e *c20Env) run(r *vcore.Run, mi int, mask uint32, nilRecv, ctor bool, variant int) {
	m := e.methods[mi]
	if e.vecs == nil {
		e.vecs = make([][][]reflect.Value, len(e.methods))
	}
	if e.vecs[mi] == nil {
		e.vecs[mi] = c20ArgVectors(m)
	}
	if variant < 0 { // "last" = every parameter at its last (most degenerate) menu entry
		variant = len(e.vecs[mi]) - 1
	}
	vec := e.vecs[mi][variant%len(e.vecs[mi])]
	c := c20Case{Method: m.Name, Mask: mask, SetFields: e.fieldNames(mask), NilReceiver: nilRecv, Constructor: ctor, ArgVariant: variant, Flavour: e.flavour}
	if variant != 0 {
		c.Args = c20ShowArgs(vec)
	}
	own := !nilRecv && mask&(1<<mi) != 0
	fp := fmt.Sprintf("C20/%s/own-%s", m.Name, map[bool]string{true: "set", false: "unset"}[own])
	var recv reflect.Value
	if nilRecv {
		recv = reflect.ValueOf((*ociregistry.Funcs)(nil))
	} else {
		fv := reflect.New(e.ftype)
		for i, f := range e.fields {
			if mask&(1<<i) != 0 {
				fv.Elem().FieldByIndex(f.Index).Set(e.fns[i])
			}
		}
		if ctor {
			fv.Interface().(*ociregistry.Funcs).NewError = func(ctx context.Context, methodName, repo string) error {
				e.ctorHits++
				return e.ctorErr
			}
		}
		recv = fv
	}
	for _, cl := range e.calls {
		cl.hits, cl.args = 0, nil
	}
	e.ctorHits = 0
	args := append([]reflect.Value{recv}, vec...)
	var out []reflect.Value
	if r.Guard("", fp, c, func() { out = m.Func.Call(args) }) {
		r.Outcome("panic")
		return
	}
	// no other field's function may be invoked
	for i, cl := range e.calls {
		if i != mi && cl.hits > 0 {
			r.Violate("", fp+"/foreign-delegate", c, "only the method's own function may be called", "called "+e.fields[i].Name)
			return
		}
	}
	if own {
		cl := e.calls[mi]
		if cl.hits != 1 {
			r.Violate("", fp+"/not-delegated", c, "own function called exactly once", fmt.Sprintf("called %d times; results %s", cl.hits, c20Show(out)))
			r.Outcome("not-delegated")
			return
		}
		for j := range cl.args {
			if !c20Same(cl.args[j], args[j+1]) {
				r.Violate("", fp+"/args-differ", c, fmt.Sprintf("arg %d = %v", j, args[j+1]), fmt.Sprintf("%v", cl.args[j]))
				return
			}
		}
		for j := range out {
			if !c20Same(out[j], c20Result(m.Type.Out(j), mi, e.derr)) {
				r.Violate("", fp+"/results-differ", c, fmt.Sprintf("result %d = %v", j, c20Result(m.Type.Out(j), mi, e.derr)), fmt.Sprintf("%v", out[j]))
				return
			}
		}
		r.Outcome("delegated")
		return
	}
	// unset: error from constructor or ErrUnsupported; other results zero.
	var gotErr error
	last := out[len(out)-1]
	if last.Type() == errType {
		if !last.IsNil() {
			gotErr = last.Interface().(error)
		}
		for j := 0; j < len(out)-1; j++ {
			if !out[j].IsZero() {
				r.Violate("", fp+"/nonzero-result", c, "zero value alongside the error", fmt.Sprintf("%v", out[j]))
				return
			}
		}
	} else if last.Kind() == reflect.Func {
		// iterator: exactly one item carrying the error
		n := 0
		y := reflect.MakeFunc(last.Type().In(0), func(a []reflect.Value) []reflect.Value {
			n++
			if !a[1].IsNil() {
				gotErr = a[1].Interface().(error)
			}
			return []reflect.Value{reflect.ValueOf(n < 5)}
		})
		if last.IsNil() {
			r.Violate("", fp+"/nil-seq", c, "iterator yielding one error", "nil iterator")
			return
		}
		if r.Guard("", fp+"/iter", c, func() { last.Call([]reflect.Value{y}) }) {
			return
		}
		if n != 1 {
			r.Violate("", fp+"/seq-items", c, "exactly one item carrying the error", fmt.Sprintf("%d items", n))
			return
		}
	} else {
		panic("c20: method without error or seq result: " + m.Name)
	}
	switch {
	case gotErr == nil:
		r.Violate("", fp+"/no-error", c, "an error", "nil error: "+c20Show(out))
	case ctor && !nilRecv:
		if gotErr != e.ctorErr || e.ctorHits != 1 {
			r.Violate("", fp+"/not-constructor-error", c, "the constructor's error (constructor called once)", fmt.Sprintf("%v (constructor calls %d)", gotErr, e.ctorHits))
		} else {
			r.Outcome("constructor-error")
			// the same table asked again, with a constructor that now answers differently: every call
			// gets the error the constructor supplies for THAT call
			second := errors.New("c20 constructor error, second call")
			recv.Interface().(*ociregistry.Funcs).NewError = func(ctx context.Context, methodName, repo string) error {
				e.ctorHits++
				return second
			}
			var out2 []reflect.Value
			if !r.Guard("", fp+"/second-call", c, func() { out2 = m.Func.Call(args) }) {
				got2 := c20ErrOf(out2)
				if got2 != second || e.ctorHits != 2 {
					r.Violate("", fp+"/second-call-not-constructor-error", c, "the error the constructor supplies for the second call (constructor called again)", fmt.Sprintf("%v (constructor calls %d)", got2, e.ctorHits))
				}
			}
		}
	default:
		if !errors.Is(gotErr, ociregistry.ErrUnsupported) {
			r.Violate("", fp+"/not-unsupported", c, "errors.Is(err, ErrUnsupported)", gotErr.Error())
		} else {
			r.Outcome("unsupported")
		}
	}
}

// c20ErrOf extracts the error of a result vector (last result, or the single error item of an iterator).
func c20ErrOf(out []reflect.Value) (err error) {
	if len(out) == 0 {
		return nil
	}
	last := out[len(out)-1]
	if last.Type() == errType {
		if !last.IsNil() {
			err = last.Interface().(error)
		}
		return err
	}
	if last.Kind() == reflect.Func && !last.IsNil() {
		y := reflect.MakeFunc(last.Type().In(0), func(a []reflect.Value) []reflect.Value {
			if !a[1].IsNil() {
				err = a[1].Interface().(error)
			}
			return []reflect.Value{reflect.ValueOf(true)}
		})
		last.Call([]reflect.Value{y})
	}
	return err
}

func c20ShowArgs(vec []reflect.Value) string {
	var s []string
	for _, a := range vec[1:] {
		s = append(s, fmt.Sprintf("%#v", a.Interface()))
	}
	return strings.Join(s, ", ")
}

func c20Show(out []reflect.Value) string {
	var s []string
	for _, o := range out {
		if o.Kind() == reflect.Func {
			s = append(s, "seq")
		} else {
			s = append(s, fmt.Sprintf("%v", o.Interface()))
		}
	}
	return strings.Join(s, ", ")
}

func c20Check(r *vcore.Run) vcore.Coverage {
	probe := newC20Env()
	n := len(probe.fields)
	all := uint32(1)<<n - 1
	var masks []uint32
	full := map[uint32]bool{} // masks that get the full argument cross product
	{
		full[0], full[all] = true, true
		for i := 0; i < n; i++ {
			full[1<<i], full[all&^(1<<i)] = true, true
			for j := 0; j < n; j++ {
				full[1<<i|1<<j], full[all&^(1<<i|1<<j)] = true, true
			}
		}
	}
	if r.Thorough() {
		masks = make([]uint32, 0, 1<<n)
		for m := uint32(0); m <= all; m++ {
			masks = append(masks, m)
		}
	} else {
		seen := map[uint32]bool{}
		add := func(m uint32) {
			if !seen[m] {
				seen[m] = true
				masks = append(masks, m)
			}
		}
		add(0)
		add(all)
		for i := 0; i < n; i++ {
			add(1 << i)
			add(all &^ (1 << i))
			for j := 0; j < n; j++ {
				add(1<<i | 1<<j)
				add(all &^ (1<<i | 1<<j))
			}
		}
	}
	var evals, nontrivial int64
	evals += c20Chained(r)
	// shard masks across workers; each worker owns its env (recording slots are not shared)
	w := vcore.Workers()
	vcore.ParallelN(w, func(shard int) {
		e := newC20Env()
		var ev, nt int64
		for k := shard; k < len(masks); k += w {
			mask := masks[k]
			for mi := range e.methods {
				nvar := 2 // all-distinctive and all-degenerate argument vectors
				if full[mask] {
					e.run(r, mi, mask, false, false, 0)
					nvar = len(e.vecs[mi])
					if mask&(1<<mi) != 0 {
						// the method's own function is set: whatever its delegate answers comes back unchanged
						for fl := 1; fl < len(c20Flavours); fl++ {
							e.flavour, e.derr = fl, c20Flavours[fl]
							e.run(r, mi, mask, false, false, 0)
							e.run(r, mi, mask, false, true, 0)
							ev += 2
						}
						e.flavour, e.derr = 0, c20Flavours[0]
					}
				}
				for _, ctor := range []bool{false, true} {
					for v := 0; v < nvar; v++ {
						variant := v
						if !full[mask] && v == 1 {
							variant = -1
						}
						e.run(r, mi, mask, false, ctor, variant)
						ev++
						if mask != 0 && mask != all {
							nt++
						}
					}
				}
			}
		}
		atomic.AddInt64(&evals, ev)
		atomic.AddInt64(&nontrivial, nt)
	})
	for mi := range probe.methods {
		probe.run(r, mi, 0, true, false, 0)
		for v := range probe.vecs[mi] {
			probe.run(r, mi, 0, true, false, v)
			evals++
		}
	}
	r.Sample("assignment", c20Case{Method: "GetBlob", Mask: 1, SetFields: probe.fieldNames(1), Constructor: true})
	r.Sample("nil-receiver", c20Case{Method: "Referrers", NilReceiver: true})
	r.Assume = []string{"function fields are discovered by reflection over ociregistry.Funcs; method = field name without the trailing underscore"}
	return vcore.Coverage{
		Evaluations: evals, Nontrivial: nontrivial,
		Rule:       fmt.Sprintf("methods(%d) x set/unset assignments(%d of %d) x {no constructor, constructor} x argument vectors (cross product of per-parameter menus {distinctive, zero, -1; context live/cancelled/expired} for none/all/single/pair assignments and their complements; distinctive + all-degenerate vectors for the rest) + nil receiver; non-trivial = assignment is neither all-set nor all-unset (distinct by construction)", n, len(masks), 1<<n),
		Exhaustive: r.Thorough(),
		Extra:      map[string]any{"methods": n, "assignments": len(masks)},
	}
}

func c20Replay(r *vcore.Run, sub string, raw json.RawMessage) {
	if sub == "chained" {
		c20Chained(r)
		return
	}
	var c c20Case
	if err := json.Unmarshal(raw, &c); err != nil {
		panic(err)
	}
	e := newC20Env()
	if c.Flavour > 0 && c.Flavour < len(c20Flavours) {
		e.flavour, e.derr = c.Flavour, c20Flavours[c.Flavour]
	}
	for mi, m := range e.methods {
		if m.Name == c.Method {
			e.run(r, mi, c.Mask, c.NilReceiver, c.Constructor, c.ArgVariant)
		}
	}
}

// c20Chained: two tables alive at once, each with its own constructor; the first table's constructor
// consults the second table (the same method, with the context it was handed - a fallback registry).
// What a table does for an unset method depends on that table alone: the second table's constructor is
// consulted and its error is what the caller of the first table receives.
func c20Chained(r *vcore.Run) (n int64) {
	e := newC20Env()
	for mi, m := range e.methods {
		m := m
		name := m.Name
		r.Guard("chained", "C20/"+name+"/two-tables", name, func() {
			errB := errors.New("c20 second table's constructor error for " + name)
			hitsB := 0
			b := &ociregistry.Funcs{NewError: func(ctx context.Context, method, repo string) error {
				hitsB++ // (which method name the constructor is told is not part of the statement)
				return errB
			}}
			vec := c20ArgVectors(m)[0]
			a := &ociregistry.Funcs{}
			a.NewError = func(ctx context.Context, method, repo string) error {
				args := append([]reflect.Value{reflect.ValueOf(b)}, vec...)
				args[1] = reflect.ValueOf(ctx) // the context the constructor was handed
				return c20ErrOf(m.Func.Call(args))
			}
			out := m.Func.Call(append([]reflect.Value{reflect.ValueOf(a)}, vec...))
			got := c20ErrOf(out)
			if got != errB || hitsB != 1 {
				r.Violate("chained", "C20/"+name+"/two-tables/second-table-did-not-consult-its-constructor", name,
					"the second table's constructor is consulted once and its error comes back", fmt.Sprintf("error %v; constructor consulted %d times", got, hitsB))
			}
		})
		n++
		_ = mi
	}
	return n
}
