package props

import (
	"context"
	"encoding/json"
	"errors"
	"fmt"
	"io"
	"strings"
	"time"

	"cuelabs.dev/go/oci/ociregistry"
	"cuelabs.dev/go/oci/ociregistry/ociunify"

	"verif/vcore"
	"verif/vsched"
	"verif/vsync"
)

// C16: concurrent unified reads are leak-free for every answer order and
// cancellation point. E1: all interleavings of caller, the two sender
// goroutines spawned by ociunify itself, and a canceller, over gated fake
// members.

func init() {
	vcore.Register(&vcore.Prop{ID: "C16", Level: "model_checking", Engine: "E1-sched", Check: c16Check, Replay: c16Replay})
}

type c16Scenario struct {
	Entry    string    `json:"entry"`   // GetBlob, GetBlobRange, GetManifest, ResolveBlob, ResolveManifest
	Scripts  [2]string `json:"members"` // S, F, BS, BF, Fc, Fd, HS
	Cancel   bool      `json:"canceller"`
	CloseErr bool      `json:"close_error"`
	// SlowBody: the members' readers have no data at hand: Read blocks until the reader is closed or
	// its member context is cancelled (a network body). The caller does not read in these scenarios.
	SlowBody bool `json:"slow_body,omitempty"`
	// Partial: the caller reads one byte and closes the reader without having seen the end of the stream
	Partial bool `json:"caller_stops_reading_early,omitempty"`
	// Caller: "" = a context the caller can cancel; "background" = context.Background(); "value" = a value
	// context on top of it: contexts that can never be cancelled by the caller (Done() == nil)
	Caller string `json:"caller_context,omitempty"`
	// EmptyBlob: what the members hold is an empty blob (descriptor size 0, no bytes): an empty stream is a
	// stream like any other, open until the caller closes it
	EmptyBlob bool    `json:"empty_blob,omitempty"`
	Schedule  []int32 `json:"schedule,omitempty"`
}

type c16Reader struct {
	member   int
	closed   int
	closeErr error
	reads    int
	st       *c16State
	slow     bool
	ctx      context.Context
	closedCh chan struct{}
}

// c16ReaderWT is a member reader that also offers io.WriterTo (member 0's readers do; member 1's do not).
type c16ReaderWT struct{ *c16Reader }

func (r c16ReaderWT) WriteTo(w io.Writer) (int64, error) {
	return io.Copy(w, struct{ io.Reader }{r.c16Reader})
}

// Read delivers one byte, then ends the stream: cleanly, or with an error when the scenario's
// member readers fail on Close as well (CloseErr scenarios double as "faulty reader" scenarios).
func (r *c16Reader) Read(p []byte) (int, error) {
	if r.slow {
		// nothing to deliver until somebody gives up on this body
		switch i, _, _ := vsync.Select(vsync.RecvCase(r.closedCh), vsync.RecvCase(r.ctx.Done())); i {
		case 0:
			return 0, errors.New("read on closed body")
		default:
			return 0, r.ctx.Err()
		}
	}
	r.reads++
	if r.reads == 1 && len(p) > 0 && !r.st.sc.EmptyBlob {
		p[0] = 'x'
		return 1, nil
	}
	if r.closeErr != nil {
		return 0, errors.New("read failed mid-stream")
	}
	return 0, io.EOF
}
func (r *c16Reader) Close() error {
	if r.st.closingChosen && r.st.resultMember == r.member && r.ctx.Err() != nil && !r.st.callerCancelled {
		// the member's own Close still runs on behalf of the call: its context is live until Close has returned
		r.st.problem("chosen-context-cancelled-before-the-member-reader-was-closed", "the member's Close found its context already cancelled although the caller had not cancelled")
	}
	if r.closed == 0 && r.closedCh != nil {
		vsync.Close(r.closedCh)
	}
	r.closed++
	r.st.log(fmt.Sprintf("reader%d.Close", r.member))
	return r.closeErr
}
func (r *c16Reader) Descriptor() ociregistry.Descriptor {
	return c16Desc(r.member, r.st.sc.EmptyBlob)
}

// c16Desc is the descriptor member i answers with: the member is named by the media type (and, for blobs
// that are not empty, by the size too).
func c16Desc(i int, empty bool) ociregistry.Descriptor {
	d := ociregistry.Descriptor{MediaType: fmt.Sprintf("application/vnd.member%d", i), Size: int64(100 + i)}
	if empty {
		d.Size = 0
	}
	return d
}

// c16MemberOf: which member a descriptor came from (-1: none).
func c16MemberOf(d ociregistry.Descriptor) int {
	for i := 0; i < 2; i++ {
		if d.MediaType == fmt.Sprintf("application/vnd.member%d", i) && (d.Size == 0 || d.Size == int64(100+i)) {
			return i
		}
	}
	return -1
}

type c16State struct {
	sc              c16Scenario
	logs            []string
	ctxs            [2]context.Context
	started         [2]bool
	returned        [2]bool
	succeeded       [2]bool
	failErr         [2]error
	readers         [2]*c16Reader
	callerCancelled bool
	problems        []string
	resultOK        bool
	resultMember    int
	done            bool
	closingChosen   bool // the caller is closing the reader it was given
}

func (st *c16State) log(s string) { st.logs = append(st.logs, s) }
func (st *c16State) problem(fp, s string) {
	st.problems = append(st.problems, fp+"|"+s)
}

var errC16Member = errors.New("member failed")

// member runs the scripted behaviour of member i for one call.
func (st *c16State) member(ctx context.Context, i int) (ok bool) {
	st.ctxs[i] = ctx
	st.started[i] = true
	st.log(fmt.Sprintf("member%d.start", i))
	// "slow" members need no explicit yield: the sender goroutine that calls the member is a
	// controlled thread whose start is a choice point, and its next step (the select) is another.
	script := st.sc.Scripts[i]
	if strings.HasPrefix(script, "B") {
		vsync.Recv(ctx.Done()) // returns only after its own context is cancelled
		st.log(fmt.Sprintf("member%d.woken", i))
	}
	ok = strings.HasSuffix(script, "S")
	st.failErr[i] = errC16Member
	if script == "HS" {
		// a member that honours cancellation (as an HTTP client does): it takes a moment, then answers
		// successfully unless its context has been cancelled meanwhile
		vsync.Yield()
		if ctx.Err() != nil {
			ok = false
			st.failErr[i] = ctx.Err()
			other := 1 - i
			if !st.callerCancelled && !(st.returned[other] && st.succeeded[other]) {
				st.problem("member-cancelled-before-any-answer-was-chosen", fmt.Sprintf("member %d, which would have succeeded, found its context cancelled although the caller had not cancelled and member %d had not answered successfully", i, other))
			}
		}
	}
	switch script {
	case "Fu":
		st.failErr[i] = ociregistry.ErrUnauthorized // failures of every flavour are failures: the other member may still succeed
	case "Fn":
		st.failErr[i] = fmt.Errorf("member says no: %w", ociregistry.ErrDenied)
	case "Fh":
		st.failErr[i] = ociregistry.NewHTTPError(ociregistry.ErrUnauthorized, 401, nil, nil)
	case "Fc":
		st.failErr[i] = context.Canceled // the member failed for reasons of its own (e.g. an upstream fetch it aborted)
	case "Fd":
		st.failErr[i] = context.DeadlineExceeded // e.g. the member's own HTTP client timeout
	}
	st.returned[i] = true
	st.succeeded[i] = ok
	st.log(fmt.Sprintf("member%d.return ok=%v", i, ok))
	return ok
}

func (st *c16State) funcs(i int) *ociregistry.Funcs {
	rd := func(ctx context.Context) (ociregistry.BlobReader, error) {
		if !st.member(ctx, i) {
			return nil, fmt.Errorf("member %d: %w", i, st.failErr[i])
		}
		r := &c16Reader{member: i, st: st, slow: st.sc.SlowBody, ctx: ctx}
		if st.sc.SlowBody {
			r.closedCh = vsync.Make(make(chan struct{}))
		}
		if st.sc.CloseErr {
			r.closeErr = errors.New("close failed")
		}
		st.readers[i] = r
		if i == 0 {
			return c16ReaderWT{r}, nil
		}
		return r, nil
	}
	ds := func(ctx context.Context) (ociregistry.Descriptor, error) {
		if !st.member(ctx, i) {
			return ociregistry.Descriptor{}, fmt.Errorf("member %d: %w", i, st.failErr[i])
		}
		return c16Desc(i, st.sc.EmptyBlob), nil
	}
	return &ociregistry.Funcs{
		GetBlob_: func(ctx context.Context, repo string, d ociregistry.Digest) (ociregistry.BlobReader, error) {
			return rd(ctx)
		},
		GetBlobRange_: func(ctx context.Context, repo string, d ociregistry.Digest, o0, o1 int64) (ociregistry.BlobReader, error) {
			return rd(ctx)
		},
		GetManifest_: func(ctx context.Context, repo string, d ociregistry.Digest) (ociregistry.BlobReader, error) {
			return rd(ctx)
		},
		ResolveBlob_: func(ctx context.Context, repo string, d ociregistry.Digest) (ociregistry.Descriptor, error) {
			return ds(ctx)
		},
		ResolveManifest_: func(ctx context.Context, repo string, d ociregistry.Digest) (ociregistry.Descriptor, error) {
			return ds(ctx)
		},
	}
}

func (sc c16Scenario) isReader() bool { return strings.HasPrefix(sc.Entry, "Get") }

func (sc c16Scenario) blocking() bool {
	return strings.HasPrefix(sc.Scripts[0], "B") || strings.HasPrefix(sc.Scripts[1], "B")
}

// body is thread 0: the caller.
func (st *c16State) body(s *vsched.Sched) {
	sc := st.sc
	u := ociunify.New(st.funcs(0), st.funcs(1), &ociunify.Options{ReadPolicy: ociunify.ReadConcurrent})
	ctx, cancel := context.WithCancel(context.Background())
	switch sc.Caller {
	case "background":
		ctx, cancel = context.Background(), func() {}
	case "value":
		type k struct{}
		ctx, cancel = context.WithValue(context.Background(), k{}, 1), func() {}
	}
	if sc.Cancel {
		s.Go("canceller", func() {
			st.callerCancelled = true
			st.log("caller.cancel")
			cancel()
		})
	}
	const dig = ociregistry.Digest("sha256:e3b0c44298fc1c149afbf4c8996fb92427ae41e4649b934ca495991b7852b855")
	var rd ociregistry.BlobReader
	var desc ociregistry.Descriptor
	var err error
	switch sc.Entry {
	case "GetBlob":
		rd, err = u.GetBlob(ctx, "r", dig)
	case "GetBlobRange":
		rd, err = u.GetBlobRange(ctx, "r", dig, 0, 1)
	case "GetManifest":
		rd, err = u.GetManifest(ctx, "r", dig)
	case "ResolveBlob":
		desc, err = u.ResolveBlob(ctx, "r", dig)
	case "ResolveManifest":
		desc, err = u.ResolveManifest(ctx, "r", dig)
	}
	cancelledAtReturn := st.callerCancelled
	st.log(fmt.Sprintf("call.return err=%v", err != nil))
	// result rule
	if err != nil {
		st.resultOK = false
		bothFailed := st.returned[0] && st.returned[1] && !st.succeeded[0] && !st.succeeded[1]
		if !bothFailed && !cancelledAtReturn {
			st.problem("error-although-a-member-could-succeed", fmt.Sprintf("error %v; members returned=%v succeeded=%v; caller not cancelled", err, st.returned, st.succeeded))
		}
	} else {
		st.resultOK = true
		if sc.isReader() {
			desc = rd.Descriptor()
		}
		m := c16MemberOf(desc)
		st.resultMember = m
		if m < 0 || m > 1 || !st.succeeded[m] {
			st.problem("result-not-from-a-successful-member", fmt.Sprintf("descriptor %v", desc))
		} else if sc.isReader() {
			chosen := st.ctxs[m]
			vsync.Yield() // the caller uses the reader for a while
			if ctx.Err() == nil && chosen.Err() != nil {
				st.problem("chosen-context-cancelled-before-close", "context of the chosen member is cancelled while the returned reader is still open")
			}
			// ... and reads it to its end (or to its error): the reader is still open afterwards
			buf := make([]byte, 8)
			for i := 0; i < 4 && !sc.SlowBody; i++ {
				if _, rerr := rd.Read(buf); rerr != nil || sc.Partial {
					break
				}
			}
			if ctx.Err() == nil && chosen.Err() != nil {
				st.problem("chosen-context-cancelled-after-reading-before-close", "context of the chosen member is cancelled once the stream has been read to its end, although the returned reader is still open")
			}
			st.closingChosen = true
			rd.Close()
			st.closingChosen = false
			if st.readers[m].closed == 0 {
				st.problem("close-not-forwarded", "Close of the returned reader did not close the member's reader")
			}
			if chosen.Err() == nil {
				st.problem("chosen-context-live-after-close", "context of the chosen member is still live after the returned reader was closed")
			}
		} else {
			if st.ctxs[m].Err() == nil {
				st.problem("resolve-context-not-cancelled", "context given to the answering member is still live after a resolve-style read returned")
			}
		}
	}
	if sc.blocking() {
		// a member that only returns when its context is cancelled: the caller eventually gives up
		vsync.Yield()
		st.callerCancelled = true
		st.log("caller.final-cancel")
		cancel()
	}
	st.done = true
	_ = cancel
}

// verdict runs on the driver after the execution.
func (st *c16State) verdict(res vsched.Result) []string {
	probs := append([]string(nil), st.problems...)
	switch res.Failed {
	case 1:
		probs = append(probs, "goroutine-left-blocked|"+res.FailMsg)
	case 2, 3, 4:
		probs = append(probs, "harness|"+res.FailMsg)
	}
	if res.Failed == 0 {
		for i := 0; i < 2; i++ {
			r := st.readers[i]
			if r == nil {
				continue
			}
			chosen := st.resultOK && st.resultMember == i
			if !chosen && r.closed == 0 {
				probs = append(probs, fmt.Sprintf("unchosen-reader-not-closed|reader opened by member %d was never closed", i))
			}
			if r.closed > 1 {
				probs = append(probs, fmt.Sprintf("reader-closed-twice|member %d", i))
			}
		}
		for i := 0; i < 2; i++ {
			if st.started[i] && st.ctxs[i].Err() == nil && !(st.resultOK && st.resultMember == i && !st.sc.isReader()) {
				// every member context is cancelled in the end (winner after close, loser after return)
				if !(st.resultOK && st.resultMember == i) {
					probs = append(probs, fmt.Sprintf("member-context-never-cancelled|member %d", i))
				}
			}
		}
	}
	return probs
}

func c16Scenarios(thorough bool) []c16Scenario {
	var out []c16Scenario
	scripts := []string{"S", "F", "BS", "BF", "Fc", "Fd", "HS"}
	own := func(s string) bool { return s == "Fc" || s == "Fd" || s == "HS" }
	for _, e := range []string{"GetBlob", "GetBlobRange", "GetManifest", "ResolveBlob", "ResolveManifest"} {
		for _, a := range scripts {
			for _, b := range scripts {
				// failures carrying the member's own context error: paired with S, F and BS only
				if own(a) && (own(b) || b == "BF") || own(b) && (own(a) || a == "BF") {
					if !(a == "HS" && b == "HS") && !(a == "HS" && b == "Fc") && !(a == "Fc" && b == "HS") {
						continue
					}
				}
				for _, c := range []bool{false, true} {
					sc := c16Scenario{Entry: e, Scripts: [2]string{a, b}, Cancel: c}
					if sc.blocking() && !c {
						// a member that returns only after cancellation never returns if nobody
						// cancels: a hang there is outside the property ("once both members have returned")
						continue
					}
					out = append(out, sc)
					if strings.HasPrefix(e, "Get") {
						if strings.HasSuffix(a, "S") || strings.HasSuffix(b, "S") {
							sp := sc
							sp.Partial = true
							out = append(out, sp)
						}
						sc.CloseErr = true
						out = append(out, sc)
						if strings.HasSuffix(a, "S") && strings.HasSuffix(b, "S") {
							// both members deliver a reader: bodies with nothing at hand yet
							sc.CloseErr, sc.SlowBody = false, true
							out = append(out, sc)
						}
					}
				}
			}
		}
	}
	for _, e := range []string{"GetBlob", "GetBlobRange", "GetManifest", "ResolveBlob", "ResolveManifest"} {
		// failures of particular flavours (authentication, authorisation, an HTTP 401) answering in either order
		for _, f := range []string{"Fu", "Fn", "Fh"} {
			for _, o := range []string{"S", "HS", "BS", "F"} {
				for _, pair := range [][2]string{{f, o}, {o, f}} {
					sc := c16Scenario{Entry: e, Scripts: pair, Cancel: o == "BS"}
					out = append(out, sc)
					if o != "BS" {
						sc.Cancel = true
						out = append(out, sc)
					}
				}
			}
		}
		// an empty blob in both members, in one, answered at once or held back
		if strings.HasPrefix(e, "Get") {
			for _, pair := range [][2]string{{"S", "S"}, {"S", "F"}, {"F", "S"}, {"S", "HS"}, {"HS", "S"}} {
				out = append(out, c16Scenario{Entry: e, Scripts: pair, EmptyBlob: true}, c16Scenario{Entry: e, Scripts: pair, EmptyBlob: true, Cancel: true})
			}
		}
		// callers that can never cancel: everything the unifier must cancel itself still gets cancelled
		for _, caller := range []string{"background", "value"} {
			for _, pair := range [][2]string{{"S", "S"}, {"S", "F"}, {"F", "S"}, {"F", "F"}, {"S", "HS"}, {"HS", "S"}, {"HS", "HS"}, {"Fc", "S"}, {"S", "Fd"}} {
				// (members that return only once their context is cancelled are left out here: the unifier
				// cancels a losing member's context only after that member has returned, so with a caller
				// that never cancels such a member never returns - outside "once both members have returned")
				sc := c16Scenario{Entry: e, Scripts: pair, Caller: caller}
				out = append(out, sc)
				if strings.HasPrefix(e, "Get") && pair[0] == "S" && pair[1] == "S" {
					sc.SlowBody = true
					out = append(out, sc)
				}
			}
		}
	}
	return out
}

func c16RunScenario(r *vcore.Run, sc c16Scenario, bound int, deadline time.Duration) vsched.Stats {
	var st *c16State
	ex := vsched.Explorer{Bound: bound, Deadline: deadline}
	outcomes := map[string]bool{}
	stats := ex.Explore(func(s *vsched.Sched) {
		st = &c16State{sc: sc}
		st.body(s)
	}, func(choices []int32, res vsched.Result) bool {
		probs := st.verdict(res)
		if len(probs) > 0 && !strings.HasPrefix(probs[0], "harness|") {
			// believed only if the same schedule fails again
			st2 := &c16State{sc: sc}
			res2 := vsched.Run(choices, false, st2.body)
			if len(st2.verdict(res2)) == 0 {
				c := sc
				c.Schedule = choices
				r.Violate("sched", "C16/HARNESS-ERROR/violation-not-reproducible", c, "the same schedule gives the same verdict", strings.Join(probs, "; "))
				return false
			}
		}
		for _, p := range probs {
			fp, msg, _ := strings.Cut(p, "|")
			c := sc
			c.Schedule = choices
			if fp == "harness" {
				r.Violate("sched", "C16/HARNESS-ERROR/"+msg, c, "harness runs cleanly", strings.Join(st.logs, " ; "))
				return false
			}
			kind := "resolve"
			if sc.isReader() {
				kind = "reader"
			}
			r.Violate("sched", fmt.Sprintf("C16/%s/%s", kind, fp), c, "see property", msg+" | log: "+strings.Join(st.logs, " ; "))
		}
		o := fmt.Sprintf("ok=%v member=%d", st.resultOK, st.resultMember)
		if !outcomes[o] {
			outcomes[o] = true
		}
		r.Outcome(o)
		return true
	})
	return stats
}

// c16Probe checks that the instrumentation is live: ociunify must spawn its
// sender goroutines through the scheduler.
func c16Probe() error {
	st := &c16State{sc: c16Scenario{Entry: "ResolveBlob", Scripts: [2]string{"S", "S"}}}
	vsched.Watchdog = 20 * time.Second
	defer func() { vsched.Watchdog = 60 * time.Second }()
	res := vsched.Run(nil, false, st.body)
	if res.Failed == 4 || res.Sched.NumThreads() < 3 {
		return fmt.Errorf("instrumentation not active: ociunify did not run under the scheduler (threads=%d, %s); build with the vrewrite overlay", res.Sched.NumThreads(), res.FailMsg)
	}
	return nil
}

func c16Check(r *vcore.Run) vcore.Coverage {
	if err := c16Probe(); err != nil {
		fmt.Println("HARNESS ERROR:", err)
		r.Violate("sched", "C16/HARNESS-ERROR/instrumentation", "probe", "scheduler hooks live", err.Error())
		return vcore.Coverage{}
	}
	scs := c16Scenarios(r.Thorough())
	var execs, points, preempted int64
	complete := true
	maxThreads := 0
	for _, sc := range scs {
		st := c16RunScenario(r, sc, -1, 5*time.Minute)
		execs += st.Executions
		points += st.Points
		for k, n := range st.Preemptions {
			if k > 0 {
				preempted += n
			}
		}
		if !st.Complete {
			complete = false
			r.Notes["cap_hit"] = st.CapHit + " in " + fmt.Sprint(sc)
		}
		if st.MaxThreads > maxThreads {
			maxThreads = st.MaxThreads
		}
		if len(r.Violations()) > 40 {
			break
		}
	}
	r.Sample("scenario", scs[3])
	r.Sample("scenario-blocking", c16Scenario{Entry: "GetBlob", Scripts: [2]string{"BS", "F"}, Cancel: true})
	r.Notes["scenarios"] = len(scs)
	r.Notes["max_threads"] = maxThreads
	r.Notes["preemption_bound"] = "unbounded (all interleavings)"
	r.Assume = []string{
		"scheduling points: go statements, channel send/receive/close, select (each ready case is a separate choice), explicit yields inside the fake members and the caller",
		"members are harness-side fakes scripted {success, failure, failure wrapping context.Canceled / DeadlineExceeded of the member's own making, block until own context is cancelled then succeed/fail}; the caller finally cancels its context only in scenarios with a blocking member",
		"ociunify is instrumented at build time by the vrewrite overlay; /repo is not modified",
	}
	return vcore.Coverage{States: execs, Transitions: points, TracesImpl: execs, Evaluations: execs, Nontrivial: preempted, Exhaustive: complete,
		Rule: fmt.Sprintf("non-trivial = complete schedules containing at least one preemption (a thread switched out while still enabled), measured; %d scenarios (5 entry points x 37 member script pairs x canceller on/off x reader Close error on/off) x ALL schedules of caller, two sender goroutines and canceller (stateless DFS, no preemption bound); states = complete schedules executed, transitions = scheduling points executed", len(scs))}
}

func c16Replay(r *vcore.Run, sub string, raw json.RawMessage) {
	var sc c16Scenario
	if err := json.Unmarshal(raw, &sc); err != nil {
		return
	}
	st := &c16State{sc: sc}
	res := vsched.Run(sc.Schedule, false, st.body)
	if res.Failed == 3 {
		fmt.Println("replay: the recorded schedule does not apply to this tree (" + res.FailMsg + "); exploring every schedule of the scenario instead")
		sc.Schedule = nil
		c16RunScenario(r, sc, -1, 5*time.Minute)
		return
	}
	for _, p := range st.verdict(res) {
		fp, msg, _ := strings.Cut(p, "|")
		kind := "resolve"
		if sc.isReader() {
			kind = "reader"
		}
		r.Violate("sched", fmt.Sprintf("C16/%s/%s", kind, fp), sc, "see property", msg+" | log: "+strings.Join(st.logs, " ; "))
	}
}
