package props

import (
	"bytes"
	"context"
	"crypto/sha256"
	"fmt"
	"io"
	"sync"

	"cuelabs.dev/go/oci/ociregistry"
)

// recBackend is a recording ociregistry.Interface built on ociregistry.Funcs.
// Every call is logged with its arguments; answers come from Answer (default:
// success with small canonical content).

type recCall struct {
	Method       string `json:"method"`
	Repo         string `json:"repo,omitempty"`
	FromRepo     string `json:"from_repo,omitempty"`
	Tag          string `json:"tag,omitempty"`
	Digest       string `json:"digest,omitempty"`
	ID           string `json:"id,omitempty"`
	StartAfter   string `json:"start_after,omitempty"`
	ArtifactType string `json:"artifact_type,omitempty"`
	MediaType    string `json:"media_type,omitempty"`
	Offset0      int64  `json:"offset0,omitempty"`
	Offset1      int64  `json:"offset1,omitempty"`
	ChunkSize    int    `json:"chunk_size,omitempty"`
	DescDigest   string `json:"desc_digest,omitempty"`
	DescSize     int64  `json:"desc_size,omitempty"`
	Bytes        []byte `json:"bytes,omitempty"`
	ctx          context.Context
}

func (c recCall) String() string {
	return fmt.Sprintf("%s(repo=%q from=%q tag=%q digest=%q id=%q after=%q o0=%d o1=%d chunk=%d desc=%s/%d bytes=%q)",
		c.Method, c.Repo, c.FromRepo, c.Tag, c.Digest, c.ID, c.StartAfter, c.Offset0, c.Offset1, c.ChunkSize, c.DescDigest, c.DescSize, c.Bytes)
}

type trackReader struct {
	r      *bytes.Reader
	desc   ociregistry.Descriptor
	closed int
	mu     *sync.Mutex
}

func (t *trackReader) Read(p []byte) (int, error) { return t.r.Read(p) }
func (t *trackReader) Close() error {
	t.mu.Lock()
	t.closed++
	t.mu.Unlock()
	return nil
}
func (t *trackReader) Descriptor() ociregistry.Descriptor { return t.desc }

type trackWriter struct {
	b        *recBackend
	id       string
	buf      []byte
	closed   int
	chunk    int
	writeErr error
}

func (w *trackWriter) Write(p []byte) (int, error) {
	w.b.log(recCall{Method: "Writer.Write", ID: w.id, Bytes: append([]byte(nil), p...)})
	if w.writeErr != nil {
		return 0, w.writeErr
	}
	w.buf = append(w.buf, p...)
	return len(p), nil
}
func (w *trackWriter) Close() error {
	w.b.mu.Lock()
	w.closed++
	w.b.mu.Unlock()
	w.b.log(recCall{Method: "Writer.Close", ID: w.id})
	return w.b.CloseErr
}
func (w *trackWriter) Size() int64    { return int64(len(w.buf)) }
func (w *trackWriter) ChunkSize() int { return w.chunk }
func (w *trackWriter) ID() string     { return w.id }
func (w *trackWriter) Commit(d ociregistry.Digest) (ociregistry.Descriptor, error) {
	w.b.log(recCall{Method: "Writer.Commit", ID: w.id, Digest: string(d)})
	if w.b.CommitErr != nil {
		return ociregistry.Descriptor{}, w.b.CommitErr
	}
	return ociregistry.Descriptor{MediaType: "application/octet-stream", Digest: d, Size: int64(len(w.buf))}, nil
}
func (w *trackWriter) Cancel() error {
	w.b.log(recCall{Method: "Writer.Cancel", ID: w.id})
	return nil
}

type recBackend struct {
	mu      sync.Mutex
	Calls   []recCall
	Readers []*trackReader
	Writers []*trackWriter
	// Err, when non-nil, is returned by every top-level method.
	Err       error
	CommitErr error
	WriteErr  error
	CloseErr  error // returned by every writer's Close
	// LenientRange: GetBlobRange answers a start offset beyond the end with an empty reader describing the
	// whole blob instead of an error (a backend that seeks in a file, or proxies an upstream that does so)
	LenientRange bool
	// Content served by reader methods.
	Content   []byte
	MediaType string
	// Lists served by listing methods.
	Repos []string
	TagsL []string
	Refs  []ociregistry.Descriptor
	// ListErrAfter >= 0 injects ListErr after that many items.
	ListErrAfter int
	ListErr      error
	ListErrItem  bool // the error pair of a failing listing carries the item it failed at (a Seq may deliver both)
	UploadID     string
	WriterBuf    []byte // initial content of writers (for resume)
	Chunk        int
}

func newRecBackend() *recBackend {
	return &recBackend{Content: []byte("hello"), MediaType: "application/octet-stream", ListErrAfter: -1, UploadID: "upload-id-1", Chunk: 3}
}

func sha256Digest(b []byte) ociregistry.Digest {
	return ociregistry.Digest(fmt.Sprintf("sha256:%x", sha256.Sum256(b)))
}

func (b *recBackend) log(c recCall) {
	b.mu.Lock()
	b.Calls = append(b.Calls, c)
	b.mu.Unlock()
}

func (b *recBackend) desc() ociregistry.Descriptor {
	return ociregistry.Descriptor{MediaType: b.MediaType, Digest: sha256Digest(b.Content), Size: int64(len(b.Content))}
}

// descFor describes the content under the digest it was asked for (as a registry does).
func (b *recBackend) descFor(d ociregistry.Digest) ociregistry.Descriptor {
	desc := b.desc()
	if d != "" {
		desc.Digest = d
	}
	return desc
}

func (b *recBackend) reader(data []byte) (ociregistry.BlobReader, error) {
	return b.readerFor(data, "")
}

func (b *recBackend) readerFor(data []byte, d ociregistry.Digest) (ociregistry.BlobReader, error) {
	t := &trackReader{r: bytes.NewReader(data), desc: b.descFor(d), mu: &b.mu}
	b.mu.Lock()
	b.Readers = append(b.Readers, t)
	b.mu.Unlock()
	return t, nil
}

func (b *recBackend) writer(id string) (ociregistry.BlobWriter, error) {
	w := &trackWriter{b: b, id: id, buf: append([]byte(nil), b.WriterBuf...), chunk: b.Chunk, writeErr: b.WriteErr}
	b.mu.Lock()
	b.Writers = append(b.Writers, w)
	b.mu.Unlock()
	return w, nil
}

func recSeq[T any](items []T, errAfter int, err error, withItem ...bool) ociregistry.Seq[T] {
	return func(yield func(T, error) bool) {
		for i, x := range items {
			if errAfter == i && err != nil {
				if len(withItem) > 0 && withItem[0] {
					yield(x, err) // the item the listing failed at travels with the error
					return
				}
				yield(*new(T), err)
				return
			}
			if !yield(x, nil) {
				return
			}
		}
		if errAfter >= len(items) && err != nil {
			yield(*new(T), err)
		}
	}
}

func filterAfter(items []string, after string) []string {
	var out []string
	for _, x := range items {
		if x > after {
			out = append(out, x)
		}
	}
	return out
}

// Funcs returns the recording Interface.
func (b *recBackend) Funcs() *ociregistry.Funcs {
	return &ociregistry.Funcs{
		GetBlob_: func(ctx context.Context, repo string, d ociregistry.Digest) (ociregistry.BlobReader, error) {
			b.log(recCall{Method: "GetBlob", Repo: repo, Digest: string(d), ctx: ctx})
			if b.Err != nil {
				return nil, b.Err
			}
			return b.readerFor(b.Content, d)
		},
		GetBlobRange_: func(ctx context.Context, repo string, d ociregistry.Digest, o0, o1 int64) (ociregistry.BlobReader, error) {
			b.log(recCall{Method: "GetBlobRange", Repo: repo, Digest: string(d), Offset0: o0, Offset1: o1, ctx: ctx})
			if b.Err != nil {
				return nil, b.Err
			}
			n := int64(len(b.Content))
			if o1 < 0 || o1 > n {
				o1 = n
			}
			if b.LenientRange && o0 > o1 {
				return b.readerFor(nil, d)
			}
			if o0 < 0 || o0 > o1 {
				return nil, fmt.Errorf("invalid range")
			}
			return b.readerFor(b.Content[o0:o1], d)
		},
		GetManifest_: func(ctx context.Context, repo string, d ociregistry.Digest) (ociregistry.BlobReader, error) {
			b.log(recCall{Method: "GetManifest", Repo: repo, Digest: string(d), ctx: ctx})
			if b.Err != nil {
				return nil, b.Err
			}
			return b.readerFor(b.Content, d)
		},
		GetTag_: func(ctx context.Context, repo string, tag string) (ociregistry.BlobReader, error) {
			b.log(recCall{Method: "GetTag", Repo: repo, Tag: tag, ctx: ctx})
			if b.Err != nil {
				return nil, b.Err
			}
			return b.reader(b.Content)
		},
		ResolveBlob_: func(ctx context.Context, repo string, d ociregistry.Digest) (ociregistry.Descriptor, error) {
			b.log(recCall{Method: "ResolveBlob", Repo: repo, Digest: string(d), ctx: ctx})
			if b.Err != nil {
				return ociregistry.Descriptor{}, b.Err
			}
			return b.descFor(d), nil
		},
		ResolveManifest_: func(ctx context.Context, repo string, d ociregistry.Digest) (ociregistry.Descriptor, error) {
			b.log(recCall{Method: "ResolveManifest", Repo: repo, Digest: string(d), ctx: ctx})
			if b.Err != nil {
				return ociregistry.Descriptor{}, b.Err
			}
			return b.descFor(d), nil
		},
		ResolveTag_: func(ctx context.Context, repo string, tag string) (ociregistry.Descriptor, error) {
			b.log(recCall{Method: "ResolveTag", Repo: repo, Tag: tag, ctx: ctx})
			if b.Err != nil {
				return ociregistry.Descriptor{}, b.Err
			}
			return b.desc(), nil
		},
		PushBlob_: func(ctx context.Context, repo string, desc ociregistry.Descriptor, r io.Reader) (ociregistry.Descriptor, error) {
			data, rerr := io.ReadAll(r)
			b.log(recCall{Method: "PushBlob", Repo: repo, DescDigest: string(desc.Digest), DescSize: desc.Size, Bytes: data, ctx: ctx})
			if b.Err != nil {
				return ociregistry.Descriptor{}, b.Err
			}
			if rerr != nil {
				return ociregistry.Descriptor{}, rerr
			}
			return desc, nil
		},
		PushBlobChunked_: func(ctx context.Context, repo string, chunkSize int) (ociregistry.BlobWriter, error) {
			b.log(recCall{Method: "PushBlobChunked", Repo: repo, ChunkSize: chunkSize, ctx: ctx})
			if b.Err != nil {
				return nil, b.Err
			}
			return b.writer(b.UploadID)
		},
		PushBlobChunkedResume_: func(ctx context.Context, repo, id string, offset int64, chunkSize int) (ociregistry.BlobWriter, error) {
			b.log(recCall{Method: "PushBlobChunkedResume", Repo: repo, ID: id, Offset0: offset, ChunkSize: chunkSize, ctx: ctx})
			if b.Err != nil {
				return nil, b.Err
			}
			return b.writer(id)
		},
		MountBlob_: func(ctx context.Context, fromRepo, toRepo string, d ociregistry.Digest) (ociregistry.Descriptor, error) {
			b.log(recCall{Method: "MountBlob", Repo: toRepo, FromRepo: fromRepo, Digest: string(d), ctx: ctx})
			if b.Err != nil {
				return ociregistry.Descriptor{}, b.Err
			}
			return ociregistry.Descriptor{MediaType: b.MediaType, Digest: d, Size: int64(len(b.Content))}, nil
		},
		PushManifest_: func(ctx context.Context, repo string, tag string, contents []byte, mediaType string) (ociregistry.Descriptor, error) {
			b.log(recCall{Method: "PushManifest", Repo: repo, Tag: tag, Bytes: append([]byte(nil), contents...), MediaType: mediaType, ctx: ctx})
			if b.Err != nil {
				return ociregistry.Descriptor{}, b.Err
			}
			return ociregistry.Descriptor{MediaType: mediaType, Digest: sha256Digest(contents), Size: int64(len(contents))}, nil
		},
		DeleteBlob_: func(ctx context.Context, repo string, d ociregistry.Digest) error {
			b.log(recCall{Method: "DeleteBlob", Repo: repo, Digest: string(d), ctx: ctx})
			return b.Err
		},
		DeleteManifest_: func(ctx context.Context, repo string, d ociregistry.Digest) error {
			b.log(recCall{Method: "DeleteManifest", Repo: repo, Digest: string(d), ctx: ctx})
			return b.Err
		},
		DeleteTag_: func(ctx context.Context, repo string, name string) error {
			b.log(recCall{Method: "DeleteTag", Repo: repo, Tag: name, ctx: ctx})
			return b.Err
		},
		Repositories_: func(ctx context.Context, startAfter string) ociregistry.Seq[string] {
			b.log(recCall{Method: "Repositories", StartAfter: startAfter, ctx: ctx})
			if b.Err != nil {
				return ociregistry.ErrorSeq[string](b.Err)
			}
			return recSeq(filterAfter(b.Repos, startAfter), b.ListErrAfter, b.ListErr, b.ListErrItem)
		},
		Tags_: func(ctx context.Context, repo string, startAfter string) ociregistry.Seq[string] {
			b.log(recCall{Method: "Tags", Repo: repo, StartAfter: startAfter, ctx: ctx})
			if b.Err != nil {
				return ociregistry.ErrorSeq[string](b.Err)
			}
			return recSeq(filterAfter(b.TagsL, startAfter), b.ListErrAfter, b.ListErr)
		},
		Referrers_: func(ctx context.Context, repo string, d ociregistry.Digest, artifactType string) ociregistry.Seq[ociregistry.Descriptor] {
			b.log(recCall{Method: "Referrers", Repo: repo, Digest: string(d), ArtifactType: artifactType, ctx: ctx})
			if b.Err != nil {
				return ociregistry.ErrorSeq[ociregistry.Descriptor](b.Err)
			}
			return recSeq(b.Refs, b.ListErrAfter, b.ListErr)
		},
	}
}

// topCalls returns the calls that are Interface methods (not writer methods).
func (b *recBackend) topCalls() []recCall {
	b.mu.Lock()
	defer b.mu.Unlock()
	var out []recCall
	for _, c := range b.Calls {
		if len(c.Method) < 7 || c.Method[:7] != "Writer." {
			out = append(out, c)
		}
	}
	return out
}
