package props

import (
	"bytes"
	"crypto/sha256"
	"encoding/base64"
	"encoding/json"
	"fmt"
	"io"
	"net/http"
	"net/url"
	"sort"
	"strings"
	"time"

	"cuelabs.dev/go/oci/ociregistry/ociauth"

	"verif/vsync"
)

// Fake network for the auth transport (C10, C11): registries that challenge,
// token servers that grant, a virtual clock, and a complete log of everything
// that reaches the underlying RoundTripper.

var authEpoch = time.Date(2030, 1, 1, 0, 0, 0, 0, time.UTC)

type authHostCfg struct {
	Host      string   `json:"host"`
	Scheme    string   `json:"scheme"`    // bearer, basic, both-bearer-first, both-basic-first, none, raw (use RawChallenge)
	Challenge string   `json:"challenge"` // scope mode of the bearer challenge: exact, wider, narrower, unrelated, empty, unparsable
	RawChal   []string `json:"raw_challenge,omitempty"`
	Creds     string   `json:"creds"` // none, basic, refresh, static
	FailCfg   bool     `json:"config_lookup_fails,omitempty"`
	// token server
	TokenMode       string  `json:"token_mode"`                     // grant, ceiling (refuses scopes wider than one repository pull/push), nopost (404 on POST)
	Lifetime        int     `json:"lifetime"`                       // expires_in; 0 = omitted (default 60 s)
	LifetimePattern []int   `json:"lifetime_pattern,omitempty"`     // if set, the k-th issued token gets LifetimePattern[k mod len] (0 = omitted)
	TokenFault      string  `json:"token_fault,omitempty"`          // "", 401, 403, 500, 302, badjson, notoken, empty200
	RealmHost       string  `json:"realm_host,omitempty"`           // default auth-<host>
	TokenDelay      float64 `json:"token_server_seconds,omitempty"` // virtual time a token request takes (a slow token server)
	Service         string  `json:"service,omitempty"`              // service name in the challenge (default svc-<host>); several registries may share realm and service
}

type issuedToken struct {
	Token    string
	Host     string
	Scope    ociauth.Scope      // for display only
	Set      map[[3]string]bool // what the token grants, as plain (type, name, action) triples: the oracle's own representation
	Issued   time.Time
	Lifetime time.Duration
	Revoked  bool // the registry no longer accepts it (key rotation, server-side revocation): nobody told the client
}

type sentReq struct {
	Trip   int    // which RoundTrip call of the harness
	Dest   string // host
	Kind   string // registry, token
	Method string
	Path   string
	Auth   string
	Body   string
	Query  string
	Time   time.Time
	Status int
}

type authNet struct {
	bearerPresented bool                    // the request being answered carried a Bearer token (for escalating challenges)
	hosts           map[string]*authHostCfg // registry hosts
	realms          map[string]*authHostCfg // realm host -> registry config it serves
	now             time.Time
	issued          []*issuedToken
	sent            []sentReq
	trip            int
	ntok            int
	basicSeen       map[string]bool            // registry host -> has sent a Basic challenge
	named           map[string]map[string]bool // registry host -> realm hosts it has named in a challenge
	tripHost        map[int]string             // registry host a RoundTrip of the harness is addressed to (token attribution)
	curTrip         int
}

// secrets are unique per host and never substrings of one another
func (h *authHostCfg) tag() string      { return fmt.Sprintf("%x", sha256.Sum256([]byte(h.Host)))[:12] }
func (h *authHostCfg) password() string { return "pw-" + h.tag() }
func (h *authHostCfg) username() string { return "user-" + h.tag() }
func (h *authHostCfg) refresh() string  { return "refresh-" + h.tag() }
func (h *authHostCfg) static() string   { return "static-" + h.tag() }
func (h *authHostCfg) realmHost() string {
	if h.RealmHost != "" {
		return h.RealmHost
	}
	return "auth-" + strings.ReplaceAll(h.Host, ":", "-")
}

func (h *authHostCfg) service() string {
	if h.Service != "" {
		return h.Service
	}
	return "svc-" + h.Host
}

func newAuthNet(cfgs []*authHostCfg) *authNet {
	n := &authNet{hosts: map[string]*authHostCfg{}, realms: map[string]*authHostCfg{}, now: authEpoch, basicSeen: map[string]bool{}, named: map[string]map[string]bool{}, tripHost: map[int]string{}}
	for _, c := range cfgs {
		n.hosts[c.Host] = c
		n.realms[c.realmHost()] = c
	}
	vsync.SetNow(n.now)
	return n
}

func (n *authNet) tick(d time.Duration) {
	n.now = n.now.Add(d)
	vsync.SetNow(n.now)
}

// EntryForRegistry implements ociauth.Config.
func (n *authNet) EntryForRegistry(host string) (ociauth.ConfigEntry, error) {
	c := n.hosts[host]
	if c == nil {
		return ociauth.ConfigEntry{}, nil
	}
	if c.FailCfg {
		return ociauth.ConfigEntry{}, fmt.Errorf("config lookup failed for %s", host)
	}
	switch c.Creds {
	case "basic":
		return ociauth.ConfigEntry{Username: c.username(), Password: c.password()}, nil
	case "refresh":
		return ociauth.ConfigEntry{RefreshToken: c.refresh()}, nil
	case "static":
		return ociauth.ConfigEntry{AccessToken: c.static()}, nil
	case "basic+refresh":
		return ociauth.ConfigEntry{Username: c.username(), Password: c.password(), RefreshToken: c.refresh()}, nil
	}
	return ociauth.ConfigEntry{}, nil
}

func scopeWider(s ociauth.Scope) ociauth.Scope {
	return s.Union(ociauth.ParseScope("repository:extra:pull"))
}

func (n *authNet) challengeFor(c *authHostCfg, demand ociauth.Scope) []string {
	if c.Scheme == "raw" {
		return c.RawChal
	}
	scopeText := demand.String()
	switch c.Challenge {
	case "wider":
		scopeText = scopeWider(demand).String()
	case "narrower":
		// only the first resource scope of the demand
		first := ""
		demand.Iter()(func(rs ociauth.ResourceScope) bool {
			first = ociauth.NewScope(rs).String()
			return false
		})
		scopeText = first
	case "unrelated":
		scopeText = "repository:zzz:pull"
	case "escalating":
		// see registry(): the demand passed in is already the one to be shown
	case "empty":
		scopeText = ""
	case "unparsable":
		scopeText = "!!not a scope:::"
	}
	bearer := fmt.Sprintf(`Bearer realm="https://%s/token",service="%s"`, c.realmHost(), c.service())
	if scopeText != "" {
		bearer += fmt.Sprintf(`,scope="%s"`, scopeText)
	}
	basic := `Basic realm="registry"`
	switch c.Scheme {
	case "bearer":
		return []string{bearer}
	case "basic":
		return []string{basic}
	case "both-bearer-first":
		return []string{bearer, basic}
	case "both-basic-first":
		return []string{basic, bearer}
	}
	return nil
}

func (n *authNet) tokenValid(tok, host string, demandText string) bool {
	demand := scopeSet(demandText)
	c := n.hosts[host]
	if c != nil && c.Creds == "static" && tok == c.static() {
		return true
	}
	for _, it := range n.issued {
		if it.Token == tok && it.Host == host && !it.Revoked && !n.now.After(it.Issued.Add(it.Lifetime)) && setContains(it.Set, demand) {
			return true
		}
	}
	return false
}

func respond(req *http.Request, status int, header http.Header, body string) *http.Response {
	if header == nil {
		header = http.Header{}
	}
	return &http.Response{Status: fmt.Sprintf("%d %s", status, http.StatusText(status)), StatusCode: status, Proto: "HTTP/1.1", ProtoMajor: 1, ProtoMinor: 1,
		Header: header, Body: io.NopCloser(strings.NewReader(body)), ContentLength: int64(len(body)), Request: req}
}

type authTripKey struct{}

// RoundTrip is the underlying transport of the auth transport under test.
func (n *authNet) RoundTrip(req *http.Request) (*http.Response, error) {
	// The moment the transport hands the request over is what "sent" means: a token may legitimately
	// run out while the request is in flight, but not before it leaves.
	handedOver := n.now
	vsync.Yield() // the network is slow: anything may happen before the request arrives
	trip := n.trip
	if t, ok := req.Context().Value(authTripKey{}).(int); ok {
		trip = t // concurrent batches: the trip travels in the context (token requests inherit it)
	}
	var body string
	if req.Body != nil {
		data, _ := io.ReadAll(req.Body)
		req.Body.Close()
		body = string(data)
	}
	host := req.URL.Host
	n.curTrip = trip
	rec := sentReq{Trip: trip, Dest: host, Method: req.Method, Path: req.URL.Path, Auth: req.Header.Get("Authorization"), Body: body, Query: req.URL.RawQuery, Time: handedOver}
	var resp *http.Response
	if c := n.hosts[host]; c != nil {
		rec.Kind = "registry"
		resp = n.registry(c, req)
	} else if c := n.realms[host]; c != nil {
		rec.Kind = "token"
		// a token service shared by several registries serves whoever's credentials the request carries
		// (else the registry the call was addressed to)
		for _, cand := range n.hosts {
			if cand.realmHost() != host {
				continue
			}
			if rec.carries(cand.password()) || rec.carries(cand.refresh()) {
				c = cand
				break
			}
			if th, ok := n.tripHost[trip]; ok && th == cand.Host {
				c = cand
			}
		}
		resp = n.tokenServer(c, req, body)
	} else {
		rec.Kind = "unknown"
		resp = respond(req, 404, nil, "no such host")
	}
	rec.Status = resp.StatusCode
	n.sent = append(n.sent, rec)
	vsync.Yield()
	return resp, nil
}

func (n *authNet) registry(c *authHostCfg, req *http.Request) *http.Response {
	demandText := req.Header.Get("X-Demand")
	demand := ociauth.ParseScope(demandText)
	auth := req.Header.Get("Authorization")
	shown := demand // the scope the challenge will name
	if c.Challenge == "escalating" {
		// the registry really wants more than the caller declared: its challenge to an unauthenticated
		// request names the declared scope, its challenge to an (insufficient) token names the rest too
		demandText += " repository:x:delete"
		demand = ociauth.ParseScope(demandText)
		if strings.HasPrefix(auth, "Bearer ") {
			shown = demand
		}
	}
	ok := false
	switch {
	case demand.IsEmpty() && c.Scheme == "none":
		ok = true
	case strings.HasPrefix(auth, "Bearer "):
		ok = (c.Scheme != "basic") && n.tokenValid(strings.TrimPrefix(auth, "Bearer "), c.Host, demandText)
	case strings.HasPrefix(auth, "Basic "):
		raw, _ := base64.StdEncoding.DecodeString(strings.TrimPrefix(auth, "Basic "))
		ok = (c.Scheme == "basic" || strings.HasPrefix(c.Scheme, "both")) && string(raw) == c.username()+":"+c.password()
	}
	if c.Scheme == "always401" {
		ok = false
	}
	if ok {
		return respond(req, 200, nil, "ok")
	}
	h := http.Header{}
	n.bearerPresented = strings.HasPrefix(auth, "Bearer ")
	chals := n.challengeFor(c, shown)
	if c.Scheme == "always401" {
		chals = []string{fmt.Sprintf(`Bearer realm="https://%s/token",service="%s",scope="%s"`, c.realmHost(), c.service(), demand.String())}
	}
	for _, ch := range chals {
		h.Add("Www-Authenticate", ch)
		lc := strings.ToLower(ch)
		if strings.HasPrefix(lc, "basic") {
			n.basicSeen[c.Host] = true
		}
		if i := strings.Index(lc, `realm="`); i >= 0 {
			// RFC 7230 quoted-string: a backslash makes the next octet literal, whatever it is
			// (decoded here independently of ociauth's challenge parser)
			var val []byte
			rest := ch[i+7:]
			closed := false
			for k := 0; k < len(rest); k++ {
				if rest[k] == '\\' && k+1 < len(rest) {
					k++
					val = append(val, rest[k])
					continue
				}
				if rest[k] == '"' {
					closed = true
					break
				}
				val = append(val, rest[k])
			}
			if closed {
				if u, err := url.Parse(string(val)); err == nil && u.Host != "" {
					if n.named[c.Host] == nil {
						n.named[c.Host] = map[string]bool{}
					}
					n.named[c.Host][u.Host] = true
				}
			}
		}
	}
	return respond(req, 401, h, `{"errors":[{"code":"UNAUTHORIZED","message":"authentication required"}]}`)
}

func (n *authNet) tokenServer(c *authHostCfg, req *http.Request, body string) *http.Response {
	if c.TokenDelay > 0 {
		n.tick(time.Duration(c.TokenDelay * float64(time.Second))) // the token server is slow: time passes while the caller holds whatever it holds
	}
	switch c.TokenFault {
	case "401", "403", "500":
		var st int
		fmt.Sscan(c.TokenFault, &st)
		return respond(req, st, nil, `{"errors":[{"code":"DENIED"}]}`)
	case "302":
		return respond(req, 302, nil, "")
	case "302-elsewhere", "303-elsewhere", "307-elsewhere", "308-elsewhere":
		// the realm sends the client on to a host that no challenge named
		var st int
		fmt.Sscan(c.TokenFault[:3], &st)
		return respond(req, st, http.Header{"Location": {"https://elsewhere.example/token?" + req.URL.RawQuery}}, "")
	case "badjson":
		return respond(req, 200, nil, `{"token":`)
	case "notoken":
		return respond(req, 200, nil, `{"expires_in":60}`)
	case "empty200":
		return respond(req, 200, nil, ``)
	}
	var scopeText string
	switch req.Method {
	case "POST":
		if c.TokenMode == "nopost" {
			return respond(req, 404, nil, "not found")
		}
		form, _ := url.ParseQuery(body)
		if form.Get("refresh_token") != c.refresh() {
			return respond(req, 401, nil, `{"errors":[{"code":"UNAUTHORIZED"}]}`)
		}
		scopeText = form.Get("scope")
	case "GET":
		scopeText = strings.Join(req.URL.Query()["scope"], " ")
		if c.Creds == "basic" || c.Creds == "basic+refresh" {
			raw, _ := base64.StdEncoding.DecodeString(strings.TrimPrefix(req.Header.Get("Authorization"), "Basic "))
			if string(raw) != c.username()+":"+c.password() {
				return respond(req, 401, nil, `{"errors":[{"code":"UNAUTHORIZED"}]}`)
			}
		}
	default:
		return respond(req, 405, nil, "")
	}
	scope := ociauth.ParseScope(scopeText)
	if c.TokenMode == "ceiling" && len(scopeSet(scopeText)) > 2 {
		return respond(req, 401, nil, `{"errors":[{"code":"UNAUTHORIZED","message":"scope too wide"}]}`)
	}
	n.ntok++
	tok := fmt.Sprintf("tok-%s-%d-", c.tag(), n.ntok)
	lt := c.Lifetime
	if len(c.LifetimePattern) > 0 {
		lt = c.LifetimePattern[(n.ntok-1)%len(c.LifetimePattern)]
	}
	life := time.Duration(lt) * time.Second
	if lt == 0 {
		life = 60 * time.Second
	}
	owner := c.Host
	if h, ok := n.tripHost[n.curTrip]; ok {
		owner = h // the token belongs to the registry on whose behalf it was requested
	}
	n.issued = append(n.issued, &issuedToken{Token: tok, Host: owner, Scope: scope, Set: scopeSet(scopeText), Issued: n.now, Lifetime: life})
	out := map[string]any{"token": tok}
	if lt != 0 {
		out["expires_in"] = lt
	}
	if c.TokenMode == "varying-fields" {
		// like a token service whose endpoints answer with different fields: odd answers carry token,
		// access_token and expires_in; even ones access_token alone (default lifetime)
		if n.ntok%2 == 1 {
			out["access_token"] = tok
		} else {
			out = map[string]any{"access_token": tok}
			life = 60 * time.Second
			n.issued[len(n.issued)-1].Lifetime = life
		}
	}
	data, _ := json.Marshal(out)
	return respond(req, 200, nil, string(data))
}

// secrets returns every secret of a host.
func (n *authNet) secretsOf(host string) map[string]string {
	c := n.hosts[host]
	m := map[string]string{"password": c.password(), "refresh": c.refresh(), "static": c.static()}
	for _, it := range n.issued {
		if it.Host == host {
			m["token:"+it.Token] = it.Token
		}
	}
	return m
}

func sortedKeys[V any](m map[string]V) []string {
	var ks []string
	for k := range m {
		ks = append(ks, k)
	}
	sort.Strings(ks)
	return ks
}

// carries reports whether the sent request carries the secret in any form.
func (s sentReq) carries(secret string) bool {
	if secret == "" {
		return false
	}
	if strings.Contains(s.Auth, secret) || strings.Contains(s.Body, secret) || strings.Contains(s.Query, secret) || strings.Contains(s.Path, secret) {
		return true
	}
	if strings.HasPrefix(s.Auth, "Basic ") {
		raw, _ := base64.StdEncoding.DecodeString(strings.TrimPrefix(s.Auth, "Basic "))
		if bytes.Contains(raw, []byte(secret)) {
			return true
		}
	}
	if q, err := url.QueryUnescape(s.Body); err == nil && strings.Contains(q, secret) {
		return true
	}
	return false
}
