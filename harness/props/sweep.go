package props

import (
	"context"
	"fmt"
	"io"
	"sort"
	"strings"
	"verif/vsync"

	"cuelabs.dev/go/oci/ociregistry"
)

// Full read sweep: every read/resolve/list entry point over the universe.

type Query struct {
	K     string `json:"k"`
	Repo  string `json:"repo,omitempty"`
	Dig   string `json:"digest,omitempty"`
	Tag   string `json:"tag,omitempty"`
	O0    int64  `json:"o0,omitempty"`
	O1    int64  `json:"o1,omitempty"`
	After string `json:"after,omitempty"`
	What  string `json:"what,omitempty"` // human label for the digest (b0, mi, ...)
	Once  bool   `json:"-"`              // run a listing once only (other threads may change the registry meanwhile)
}

func (q Query) String() string {
	switch q.K {
	case "GetBlobRange":
		return fmt.Sprintf("GetBlobRange(%s,%s,%d,%d)", q.Repo, q.What, q.O0, q.O1)
	case "GetTag", "ResolveTag":
		return fmt.Sprintf("%s(%s,%s)", q.K, q.Repo, q.Tag)
	case "Tags":
		return fmt.Sprintf("Tags(%s,after=%q)", q.Repo, q.After)
	case "Repositories":
		return fmt.Sprintf("Repositories(after=%q)", q.After)
	}
	return fmt.Sprintf("%s(%s,%s)", q.K, q.Repo, q.What)
}

type Obs struct {
	Q     Query
	OK    bool
	Code  string
	Err   string
	Desc  ociregistry.Descriptor
	Bytes []byte
	Items []string
	Post  string
	Again string // set when traversing the same iterator value again gave a different listing
}

func (o Obs) Text() string {
	if !o.OK {
		return fmt.Sprintf("%s -> ERR[%s] items=%v", o.Q, o.Code, o.Items)
	}
	switch o.Q.K {
	case "Tags", "Repositories", "Referrers":
		if o.Again != "" {
			return fmt.Sprintf("%s -> %v [re-run of the same iterator differs]", o.Q, o.Items)
		}
		return fmt.Sprintf("%s -> %v", o.Q, o.Items)
	case "ResolveBlob", "ResolveManifest", "ResolveTag":
		return fmt.Sprintf("%s -> %s", o.Q, descText(o.Desc))
	}
	return fmt.Sprintf("%s -> %s %q", o.Q, descText(o.Desc), o.Bytes)
}

func sweepQueries(u *universe, repos []string) []Query {
	var qs []Query
	unknownDig := string(sha256Digest([]byte("unknown content")))
	for _, r := range repos {
		for i, b := range u.Blobs {
			d := string(sha256Digest(b))
			w := fmt.Sprintf("b%d", i)
			qs = append(qs, Query{K: "GetBlob", Repo: r, Dig: d, What: w}, Query{K: "ResolveBlob", Repo: r, Dig: d, What: w})
			n := int64(len(b))
			if n > 5 {
				// a long blob: boundary offsets only
				for _, o0 := range []int64{0, 1, n - 1, n} {
					for _, o1 := range []int64{-1, 1, n - 1, n, n + 1} {
						qs = append(qs, Query{K: "GetBlobRange", Repo: r, Dig: d, O0: o0, O1: o1, What: w})
					}
				}
				continue
			}
			for o0 := int64(0); o0 <= n+1; o0++ {
				for o1 := int64(-1); o1 <= n+1; o1++ {
					qs = append(qs, Query{K: "GetBlobRange", Repo: r, Dig: d, O0: o0, O1: o1, What: w})
				}
			}
		}
		qs = append(qs, Query{K: "GetBlob", Repo: r, Dig: unknownDig, What: "unknown"}, Query{K: "ResolveBlob", Repo: r, Dig: unknownDig, What: "unknown"})
		seen := map[string]bool{}
		for _, m := range u.Manifests {
			d := string(sha256Digest(m.Data))
			if seen[d] {
				continue
			}
			seen[d] = true
			qs = append(qs, Query{K: "GetManifest", Repo: r, Dig: d, What: m.Name}, Query{K: "ResolveManifest", Repo: r, Dig: d, What: m.Name},
				Query{K: "Referrers", Repo: r, Dig: d, What: m.Name})
		}
		qs = append(qs, Query{K: "GetManifest", Repo: r, Dig: unknownDig, What: "unknown"})
		// blobs and manifests are separate tables: a digest known as one is not thereby known as the other
		// (asked after the digest has been resolved in its own table, so that anything remembered from
		// that answer is in place)
		for _, m := range u.Manifests[:2] {
			d := string(sha256Digest(m.Data))
			qs = append(qs, Query{K: "ResolveBlob", Repo: r, Dig: d, What: m.Name + "-as-blob"}, Query{K: "GetBlob", Repo: r, Dig: d, What: m.Name + "-as-blob"})
		}
		if len(u.Blobs) > 1 {
			d := string(sha256Digest(u.Blobs[1]))
			qs = append(qs, Query{K: "ResolveManifest", Repo: r, Dig: d, What: "b1-as-manifest"}, Query{K: "GetManifest", Repo: r, Dig: d, What: "b1-as-manifest"})
		}
		for _, t := range append(append([]string(nil), u.Tags...), "nosuchtag") {
			qs = append(qs, Query{K: "GetTag", Repo: r, Tag: t}, Query{K: "ResolveTag", Repo: r, Tag: t})
		}
		tagAfters := []string{"", "zz", "\x00"}
		for _, t := range u.Tags {
			tagAfters = append(tagAfters, t, t+"!")
		}
		for _, after := range tagAfters {
			qs = append(qs, Query{K: "Tags", Repo: r, After: after})
		}
	}
	repoAfters := []string{"", "q", "zz", "\x00"}
	for _, n := range u.Repos {
		repoAfters = append(repoAfters, n, n+"!")
	}
	for _, after := range repoAfters {
		qs = append(qs, Query{K: "Repositories", After: after})
	}
	return qs
}

func runQuery(ctx context.Context, reg ociregistry.Interface, q Query) (o Obs) {
	o.Q = q
	fail := func(err error) Obs {
		o.OK = false
		o.Code = errCodeOf(err)
		o.Err = err.Error()
		return o
	}
	reader := func(r ociregistry.BlobReader, err error) Obs {
		if err != nil {
			return fail(err)
		}
		o.Desc = r.Descriptor()
		data, rerr := io.ReadAll(r)
		r.Close()
		if rerr != nil {
			o.Post = "read error after successful open"
			return fail(rerr)
		}
		o.OK, o.Bytes = true, data
		return o
	}
	desc := func(d ociregistry.Descriptor, err error) Obs {
		if err != nil {
			return fail(err)
		}
		o.OK, o.Desc = true, d
		return o
	}
	switch q.K {
	case "GetBlob":
		return reader(reg.GetBlob(ctx, q.Repo, ociregistry.Digest(q.Dig)))
	case "GetBlobRange":
		return reader(reg.GetBlobRange(ctx, q.Repo, ociregistry.Digest(q.Dig), q.O0, q.O1))
	case "GetManifest":
		return reader(reg.GetManifest(ctx, q.Repo, ociregistry.Digest(q.Dig)))
	case "GetTag":
		return reader(reg.GetTag(ctx, q.Repo, q.Tag))
	case "ResolveBlob":
		return desc(reg.ResolveBlob(ctx, q.Repo, ociregistry.Digest(q.Dig)))
	case "ResolveManifest":
		return desc(reg.ResolveManifest(ctx, q.Repo, ociregistry.Digest(q.Dig)))
	case "ResolveTag":
		return desc(reg.ResolveTag(ctx, q.Repo, q.Tag))
	case "Tags":
		items, err, post, again := consumeAgainUnless(q.Once, reg.Tags(ctx, q.Repo, q.After), func(s string) string { return s })
		o.Items, o.Post, o.Again = items, post, again
		if err != nil {
			return fail(err)
		}
		o.OK = true
	case "Repositories":
		items, err, post, again := consumeAgainUnless(q.Once, reg.Repositories(ctx, q.After), func(s string) string { return s })
		o.Items, o.Post, o.Again = items, post, again
		if err != nil {
			return fail(err)
		}
		o.OK = true
	case "Referrers":
		items, err, post, again := consumeAgainUnless(q.Once, reg.Referrers(ctx, q.Repo, ociregistry.Digest(q.Dig), ""), descText)
		o.Items, o.Post, o.Again = items, post, again
		if err != nil {
			return fail(err)
		}
		o.OK = true
	default:
		panic("unknown query " + q.K)
	}
	return o
}

// heldListings obtains every listing of the query list first and consumes them only afterwards, in the
// order obtained: listings are values of their own; obtaining another one (of the same repository, for
// another subject or start point) does not change what an earlier one delivers. It returns, per listing
// query, what the held iterator delivered.
func heldListings(ctx context.Context, reg ociregistry.Interface, queries []Query) map[string]string {
	type held struct {
		q    Query
		strs ociregistry.Seq[string]
		ds   ociregistry.Seq[ociregistry.Descriptor]
	}
	var hs []held
	for _, q := range queries {
		switch q.K {
		case "Tags":
			hs = append(hs, held{q: q, strs: reg.Tags(ctx, q.Repo, q.After)})
		case "Repositories":
			hs = append(hs, held{q: q, strs: reg.Repositories(ctx, q.After)})
		case "Referrers":
			hs = append(hs, held{q: q, ds: reg.Referrers(ctx, q.Repo, ociregistry.Digest(q.Dig), "")})
		}
	}
	out := map[string]string{}
	for _, h := range hs {
		var items []string
		var err error
		if h.strs != nil {
			items, err, _ = consumeSeq(h.strs, 0, func(s string) string { return s })
		} else {
			items, err, _ = consumeSeq(h.ds, 0, descText)
		}
		out[h.q.String()] = fmt.Sprintf("%v err=%v", items, err != nil)
	}
	return out
}

// consumeAgain drains an iterator value, then runs it again stopping after the first item, then
// drains it a third time: an iterator value is a description of a listing, not a cursor, so every
// run starts from the same place (nothing else touches the registry in between).
func consumeAgain[T any](seq ociregistry.Seq[T], show func(T) string) (items []string, err error, post, again string) {
	items, err, post = consumeSeq(seq, 0, show)
	one, _, _ := consumeSeq(seq, 1, show)
	items3, err3, _ := consumeSeq(seq, 0, show)
	switch {
	case len(items) > 0 && (len(one) != 1 || one[0] != items[0]):
		again = fmt.Sprintf("second run of the same iterator (stopped after one item) gave %v, the first run started with %q", one, items[0])
	case strings.Join(items, ",") != strings.Join(items3, ",") || (err == nil) != (err3 == nil):
		again = fmt.Sprintf("third run of the same iterator gave %v err=%v, the first run gave %v err=%v", items3, err3, items, err)
	}
	return
}

func consumeAgainUnless[T any](once bool, seq ociregistry.Seq[T], show func(T) string) (items []string, err error, post, again string) {
	if once {
		// a thread of a concurrent harness: other threads may run between obtaining a listing and
		// consuming it (a listing is a value; what it delivers was fixed when it was obtained or is read
		// under the registry's own synchronisation - either way nothing half-written)
		vsync.Yield()
		items, err, post = consumeSeq(seq, 0, show)
		return
	}
	return consumeAgain(seq, show)
}

// CheckObs compares one observation with the model; "" if consistent.
func (m *Model) CheckObs(u *universe, o Obs) string {
	q := o.Q
	r := m.repo(q.Repo, false)
	empty := r.empty()
	if o.Post != "" {
		return o.Post
	}
	if o.Again != "" {
		return "re-run differs: " + o.Again
	}
	wantFail := func(codes ...string) string {
		if o.OK {
			return fmt.Sprintf("want failure %v, got success %s", codes, o.Text())
		}
		if m.AnyFailCode {
			return ""
		}
		if empty {
			codes = append(codes, "NAME_UNKNOWN")
		}
		if m.HEADResolves && strings.HasPrefix(q.K, "Resolve") {
			codes = append(codes, "NAME_UNKNOWN", "BLOB_UNKNOWN", "MANIFEST_UNKNOWN")
		}
		for _, c := range codes {
			if c == o.Code {
				return ""
			}
		}
		return fmt.Sprintf("want code %v, got [%s] %s", codes, o.Code, o.Err)
	}
	wantContent := func(data []byte, mts ...string) string {
		if !o.OK {
			return fmt.Sprintf("want success, got [%s] %s", o.Code, o.Err)
		}
		if string(o.Bytes) != string(data) && (q.K == "GetBlob" || q.K == "GetManifest" || q.K == "GetTag") {
			return fmt.Sprintf("want bytes %q got %q", data, o.Bytes)
		}
		if o.Desc.Digest != sha256Digest(data) || o.Desc.Size != int64(len(data)) {
			return fmt.Sprintf("want descriptor of %q got %s", data, descText(o.Desc))
		}
		for _, mt := range mts {
			if mt == o.Desc.MediaType {
				return ""
			}
		}
		return fmt.Sprintf("want media type %v got %q", mts, o.Desc.MediaType)
	}
	switch q.K {
	case "GetBlob", "ResolveBlob", "GetBlobRange":
		var b *mBlob
		if r != nil {
			b = r.Blobs[ociregistry.Digest(q.Dig)]
		}
		if b == nil {
			return wantFail("BLOB_UNKNOWN")
		}
		if q.K == "GetBlobRange" {
			n := int64(len(b.Data))
			o1 := q.O1
			if o1 < 0 || o1 > n {
				o1 = n
			}
			if q.O0 > o1 {
				if o.OK {
					return fmt.Sprintf("unsatisfiable range must fail, got %s", o.Text())
				}
				return ""
			}
			if !o.OK {
				return fmt.Sprintf("want range success, got [%s] %s", o.Code, o.Err)
			}
			if string(o.Bytes) != string(b.Data[q.O0:o1]) {
				return fmt.Sprintf("want slice %q got %q", b.Data[q.O0:o1], o.Bytes)
			}
			if o.Desc.Digest != sha256Digest(b.Data) || o.Desc.Size != n {
				return fmt.Sprintf("range read must describe the whole blob, got %s", descText(o.Desc))
			}
			return ""
		}
		return wantContent(b.Data, b.MT)
	case "GetManifest", "ResolveManifest":
		var mm *mMan
		if r != nil {
			mm = r.Mans[ociregistry.Digest(q.Dig)]
		}
		if mm == nil {
			return wantFail("MANIFEST_UNKNOWN")
		}
		return wantContent(mm.Data, mm.MT)
	case "GetTag", "ResolveTag":
		var d ociregistry.Descriptor
		ok := false
		if r != nil {
			d, ok = r.Tags[q.Tag]
		}
		if !ok {
			return wantFail("MANIFEST_UNKNOWN")
		}
		mm := r.Mans[d.Digest]
		if mm == nil {
			// dangling tag: GetTag cannot succeed; ResolveTag is unspecified
			if q.K == "GetTag" && o.OK {
				return "GetTag succeeded for a tag whose manifest was deleted"
			}
			if q.K == "ResolveTag" && o.OK && (o.Desc.Digest != d.Digest) {
				return fmt.Sprintf("dangling tag resolved to %s, bound to %s", o.Desc.Digest, d.Digest)
			}
			return ""
		}
		return wantContent(mm.Data, d.MediaType, mm.MT)
	case "Tags":
		if !o.OK {
			if empty {
				return wantFail()
			}
			return fmt.Sprintf("want tag listing, got [%s] %s", o.Code, o.Err)
		}
		var must, may []string
		if r != nil {
			for t, d := range r.Tags {
				if t > q.After {
					if r.Mans[d.Digest] != nil {
						must = append(must, t)
					} else {
						may = append(may, t)
					}
				}
			}
		}
		return checkListing(o.Items, must, may, q.After)
	case "Repositories":
		if !o.OK {
			return fmt.Sprintf("want repository listing, got [%s] %s", o.Code, o.Err)
		}
		var must, may []string
		for n, rr := range m.Repos {
			if n > q.After {
				if rr.empty() {
					may = append(may, n)
				} else {
					must = append(must, n)
				}
			}
		}
		for _, n := range append(append([]string(nil), u.Repos...), "q") {
			if n > q.After && m.Repos[n] == nil {
				may = append(may, n)
			}
		}
		return checkListing(o.Items, must, may, q.After)
	case "Referrers":
		if !o.OK {
			if empty {
				return wantFail()
			}
			return fmt.Sprintf("want referrers listing, got [%s] %s", o.Code, o.Err)
		}
		var want []string
		if r != nil {
			for d, mm := range r.Mans {
				if mm.Subject == ociregistry.Digest(q.Dig) {
					want = append(want, descText(ociregistry.Descriptor{MediaType: mm.MT, Digest: d, Size: int64(len(mm.Data))}))
				}
			}
		}
		sort.Slice(want, func(i, j int) bool { return strings.SplitN(want[i], "|", 3)[1] < strings.SplitN(want[j], "|", 3)[1] })
		if strings.Join(want, ",") != strings.Join(o.Items, ",") {
			return fmt.Sprintf("want referrers %v got %v", want, o.Items)
		}
		return ""
	}
	return "unknown query"
}

// checkListing: items must be strictly ascending, strictly after the start,
// contain every must-element and only must/may elements.
func checkListing(items, must, may []string, after string) string {
	allowed := map[string]bool{}
	for _, x := range must {
		allowed[x] = true
	}
	for _, x := range may {
		allowed[x] = true
	}
	got := map[string]bool{}
	for i, x := range items {
		if i > 0 && items[i-1] >= x {
			return fmt.Sprintf("listing not strictly ascending: %v", items)
		}
		if x <= after {
			return fmt.Sprintf("listing contains %q not after %q", x, after)
		}
		if !allowed[x] {
			return fmt.Sprintf("listing contains unexpected %q (items %v, expected %v optional %v)", x, items, must, may)
		}
		got[x] = true
	}
	for _, x := range must {
		if !got[x] {
			return fmt.Sprintf("listing misses %q (items %v)", x, items)
		}
	}
	return ""
}

// sweepText renders a whole sweep canonically (for differential comparison).
func sweepText(obs []Obs) string {
	var sb strings.Builder
	for _, o := range obs {
		sb.WriteString(o.Text())
		sb.WriteByte('\n')
	}
	return sb.String()
}
