// Package props holds the per-property alphabets, harnesses and oracles.
package props
