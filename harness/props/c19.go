package props

import (
	"encoding/base64"
	"encoding/json"
	"errors"
	"fmt"
	"os"
	"path/filepath"
	"sort"
	"strings"
	"sync"
	"sync/atomic"
	"time"

	"cuelabs.dev/go/oci/ociregistry/ociauth"

	"verif/vcore"
	"verif/vsync"
)

// C19: credential lookup from config files is deterministic with fixed
// precedence. E4 with owned map iteration order: for every generated
// document, EVERY iteration order of the auths table (including whether
// entries inserted during the loop are visited) is explored through the
// vsync.MapIter hook that the overlay installs in decodeConfigFile.

func init() {
	vcore.Register(&vcore.Prop{ID: "C19", Level: "exploration", Engine: "E4-enum", Check: c19Check, Replay: c19Replay})
}

type c19Entry struct {
	Key  string `json:"key"`
	Kind string `json:"kind"` // userpass, auth, auth-nocolon, auth-nul, auth-colonpw, auth-emptyuser, auth-badb64, identity, registry, ambiguous, empty
	ID   string `json:"id"`   // makes the credentials of this entry distinctive
}

type c19Doc struct {
	Entries     []c19Entry        `json:"entries"`
	CredsStore  string            `json:"creds_store,omitempty"`
	CredHelpers map[string]string `json:"cred_helpers,omitempty"`
	Helpers     map[string]string `json:"helper_behaviours,omitempty"` // helper name -> creds|token|notfound|missing|error
	Lookups     []string          `json:"lookups"`
	Order       []int             `json:"iteration_choices,omitempty"`
}

func (e c19Entry) json() map[string]string {
	b64 := func(s string) string { return base64.StdEncoding.EncodeToString([]byte(s)) }
	switch e.Kind {
	case "userpass":
		return map[string]string{"username": "u" + e.ID, "password": "p" + e.ID}
	case "auth":
		return map[string]string{"auth": b64("u" + e.ID + ":p" + e.ID)}
	case "auth-overrides":
		return map[string]string{"auth": b64("u" + e.ID + ":p" + e.ID), "username": "ignored", "password": "ignored"}
	case "auth-nocolon":
		return map[string]string{"auth": b64("u" + e.ID)}
	case "auth-nul":
		return map[string]string{"auth": b64("u" + e.ID + ":p" + e.ID + "\x00")}
	case "auth-colonpw":
		return map[string]string{"auth": b64("u" + e.ID + ":p:" + e.ID)}
	case "auth-emptypw":
		return map[string]string{"auth": b64("u" + e.ID + ":")}
	case "auth-emptyuser":
		return map[string]string{"auth": b64(":p" + e.ID)}
	case "auth-badb64":
		return map[string]string{"auth": "!!!notbase64"}
	case "identity":
		return map[string]string{"identitytoken": "it" + e.ID}
	case "registry":
		return map[string]string{"registrytoken": "rt" + e.ID}
	case "ambiguous":
		return map[string]string{"identitytoken": "it" + e.ID, "username": "u" + e.ID, "password": "p" + e.ID}
	case "useronly":
		return map[string]string{"username": "u" + e.ID}
	}
	return map[string]string{}
}

// expected entry of one table row; loadFails reports a document that must not load.
func (e c19Entry) want() (entry ociauth.ConfigEntry, lookupFails, loadFails bool) {
	u, p := "u"+e.ID, "p"+e.ID
	switch e.Kind {
	case "userpass", "auth", "auth-overrides", "auth-nul":
		return ociauth.ConfigEntry{Username: u, Password: p}, false, false
	case "auth-colonpw":
		return ociauth.ConfigEntry{Username: u, Password: "p:" + e.ID}, false, false
	case "auth-emptypw":
		return ociauth.ConfigEntry{Username: u, Password: ""}, false, false
	case "auth-nocolon", "auth-emptyuser", "auth-badb64":
		return ociauth.ConfigEntry{}, false, true
	case "identity":
		return ociauth.ConfigEntry{RefreshToken: "it" + e.ID}, false, false
	case "registry":
		return ociauth.ConfigEntry{AccessToken: "rt" + e.ID}, false, false
	case "ambiguous":
		return ociauth.ConfigEntry{}, true, false
	case "useronly":
		return ociauth.ConfigEntry{Username: u}, false, false
	}
	return ociauth.ConfigEntry{}, false, false
}

func c19URLHost(key string) (string, bool) {
	if !strings.Contains(key, "//") {
		return "", false
	}
	s := key
	if strings.HasPrefix(s, "http://") {
		s = strings.TrimPrefix(s, "http://")
	} else if strings.HasPrefix(s, "https://") {
		s = strings.TrimPrefix(s, "https://")
	}
	h, _, _ := strings.Cut(s, "/")
	return h, h != key
}

var errC19Helper = errors.New("helper failed")

func (d c19Doc) runner(log *[]string, mu *sync.Mutex) ociauth.HelperRunner {
	return func(name, server string) (ociauth.ConfigEntry, error) {
		mu.Lock()
		*log = append(*log, name+"("+server+")")
		mu.Unlock()
		switch d.Helpers[name] {
		case "creds":
			return ociauth.ConfigEntry{Username: "hu-" + name + "-" + server, Password: "hp-" + name}, nil
		case "token":
			return ociauth.ConfigEntry{RefreshToken: "hrt-" + name + "-" + server}, nil
		case "notfound":
			return ociauth.ConfigEntry{}, nil
		case "missing":
			return ociauth.ConfigEntry{}, fmt.Errorf("%w: no such binary", ociauth.ErrHelperNotFound)
		}
		return ociauth.ConfigEntry{}, errC19Helper
	}
}

// reference precedence function
func (d c19Doc) reference(host string) (ociauth.ConfigEntry, bool) {
	helperResult := func(name string) (ociauth.ConfigEntry, bool, bool) { // entry, failed, missing
		switch d.Helpers[name] {
		case "creds":
			return ociauth.ConfigEntry{Username: "hu-" + name + "-" + host, Password: "hp-" + name}, false, false
		case "token":
			return ociauth.ConfigEntry{RefreshToken: "hrt-" + name + "-" + host}, false, false
		case "notfound":
			return ociauth.ConfigEntry{}, false, false
		case "missing":
			return ociauth.ConfigEntry{}, true, true
		}
		return ociauth.ConfigEntry{}, true, false
	}
	h, perHost := d.CredHelpers[host]
	if perHost && h != "" {
		e, failed, _ := helperResult(h)
		return e, failed // a per-host helper wins, whatever it answers
	}
	// a per-host entry naming no helper ("") still wins over the default store: the host uses
	// the table (docker/cli's GetCredentialsStore has the same rule)
	if d.CredsStore != "" && !perHost {
		e, failed, missing := helperResult(d.CredsStore)
		if !missing {
			return e, failed
		}
		// a missing default helper falls back to the table
	}
	// explicit host entry wins over URL-derived ones
	for _, en := range d.Entries {
		if en.Key == host {
			e, fails, _ := en.want()
			return e, fails
		}
	}
	var derived []c19Entry
	for _, en := range d.Entries {
		if h, ok := c19URLHost(en.Key); ok && h == host {
			derived = append(derived, en)
		}
	}
	switch len(derived) {
	case 0:
		return ociauth.ConfigEntry{}, false
	case 1:
		e, fails, _ := derived[0].want()
		return e, fails
	}
	return ociauth.ConfigEntry{}, true // several URL-form keys for one host
}

func (d c19Doc) loadMustFail() bool {
	for _, en := range d.Entries {
		if _, _, lf := en.want(); lf {
			return true
		}
	}
	return false
}

func (d c19Doc) fileJSON() []byte {
	auths := map[string]map[string]string{}
	for _, en := range d.Entries {
		auths[en.Key] = en.json()
	}
	doc := map[string]any{"auths": auths}
	if d.CredsStore != "" {
		doc["credsStore"] = d.CredsStore
	}
	if len(d.CredHelpers) > 0 {
		doc["credHelpers"] = d.CredHelpers
	}
	data, _ := json.Marshal(doc)
	return data
}

type c19Result struct {
	loadErr bool
	entries []string // per lookup: "entry|failed"
}

func (r c19Result) String() string {
	if r.loadErr {
		return "load failed"
	}
	return strings.Join(r.entries, " ; ")
}

// c19Load loads the document from disk (through LoadWithEnv) and performs the lookups.
func c19Load(d c19Doc, dir string) (res c19Result, calls []string) {
	var mu sync.Mutex
	cf, err := ociauth.LoadWithEnv(d.runner(&calls, &mu), []string{"DOCKER_CONFIG=" + dir, "HOME=/nonexistent"})
	if err != nil {
		return c19Result{loadErr: true}, nil
	}
	for _, host := range d.Lookups {
		e, err := cf.EntryForRegistry(host)
		if err != nil {
			res.entries = append(res.entries, host+"=FAILED")
		} else {
			res.entries = append(res.entries, fmt.Sprintf("%s=%+v", host, e))
		}
	}
	return res, calls
}

func (d c19Doc) wantResult() c19Result {
	if d.loadMustFail() {
		return c19Result{loadErr: true}
	}
	var res c19Result
	for _, host := range d.Lookups {
		e, failed := d.reference(host)
		if failed {
			res.entries = append(res.entries, host+"=FAILED")
		} else {
			res.entries = append(res.entries, fmt.Sprintf("%s=%+v", host, e))
		}
	}
	return res
}

var c19DirSeq struct {
	sync.Mutex
	n int
}

// c19BudgetHits counts documents whose iteration-order search was cut at its budget.
var c19BudgetHits int64

func c19Run(r *vcore.Run, d c19Doc, allOrders bool) (execs int64) {
	c19DirSeq.Lock()
	c19DirSeq.n++
	dir := filepath.Join(vcore.Root, ".work", "c19", fmt.Sprint(os.Getpid()), fmt.Sprint(c19DirSeq.n))
	c19DirSeq.Unlock()
	os.MkdirAll(dir, 0o755)
	defer os.RemoveAll(dir)
	if err := os.WriteFile(filepath.Join(dir, "config.json"), d.fileJSON(), 0o600); err != nil {
		panic(err)
	}
	want := d.wantResult()
	fp := "C19/" + c19DocClass(d)
	outcomes := map[string][]int{}
	run := func(prefix []int) (ns []int) {
		pos := 0
		var taken []int
		if allOrders {
			vsync.Choose = func(n int, what string) int {
				c := 0
				if pos < len(prefix) {
					c = prefix[pos]
				}
				pos++
				ns = append(ns, n)
				taken = append(taken, c)
				return c
			}
		}
		var res c19Result
		dd := d
		dd.Order = nil
		panicked := r.Guard("doc", fp, d, func() { res, _ = c19Load(dd, dir) })
		vsync.Choose = nil
		execs++
		if panicked {
			return ns
		}
		got := res.String()
		if _, ok := outcomes[got]; !ok {
			outcomes[got] = append([]int(nil), taken...)
		}
		if got != want.String() {
			c := d
			c.Order = taken
			r.Violate("doc", fp+"/differs-from-precedence-rule", c, want.String(), got)
		}
		return ns
	}
	// DFS over iteration-order choices
	// (budget: code that ranges over a map once per decode gives n! orders; code that does so once per
	// lookup gives a product of those - the search is cut there and the run reported as not exhaustive)
	budget := int64(15000)
	var explore func(prefix []int)
	explore = func(prefix []int) {
		if execs >= budget {
			if execs == budget {
				atomic.AddInt64(&c19BudgetHits, 1)
				execs++
			}
			return
		}
		ns := run(prefix)
		for i := len(prefix); i < len(ns); i++ {
			for alt := 1; alt < ns[i]; alt++ {
				np := make([]int, i+1)
				copy(np, prefix)
				// positions between len(prefix) and i took choice 0
				np[i] = alt
				explore(np)
			}
		}
	}
	explore(nil)
	if len(outcomes) > 1 {
		var keys []string
		for k := range outcomes {
			keys = append(keys, k)
		}
		sort.Strings(keys)
		c := d
		c.Order = outcomes[keys[1]]
		r.Violate("doc", fp+"/depends-on-map-iteration-order", c, "one result for every iteration order", strings.Join(keys, "  ||  "))
	}
	r.Outcome(fmt.Sprintf("load-fails=%v", want.loadErr))
	return execs
}

func c19DocClass(d c19Doc) string {
	var kinds, forms []string
	for _, e := range d.Entries {
		kinds = append(kinds, e.Kind)
		switch {
		case strings.HasPrefix(e.Key, "https://"), strings.HasPrefix(e.Key, "http://"):
			forms = append(forms, "url")
		case strings.HasPrefix(e.Key, "//"):
			forms = append(forms, "slashes")
		case strings.Contains(e.Key, "/"):
			forms = append(forms, "path")
		default:
			forms = append(forms, "host")
		}
	}
	sort.Strings(kinds)
	sort.Strings(forms)
	s := "keys=" + strings.Join(forms, "+") + "/kinds=" + strings.Join(kinds, "+")
	if d.CredsStore != "" {
		s += "/store-" + d.Helpers[d.CredsStore]
	}
	if len(d.CredHelpers) > 0 {
		var hs []string
		for h, n := range d.CredHelpers {
			b := d.Helpers[n]
			if n == "" {
				b = "noname"
			}
			hs = append(hs, h+"-"+b)
		}
		sort.Strings(hs)
		s += "/helpers-" + strings.Join(hs, "+")
	}
	return s
}

// c19LookupOrder checks that results do not depend on the order of lookups on one ConfigFile.
func c19LookupOrder(r *vcore.Run, d c19Doc) {
	dir := filepath.Join(vcore.Root, ".work", "c19", fmt.Sprint(os.Getpid()), "lo")
	c19DirSeq.Lock()
	defer c19DirSeq.Unlock()
	os.MkdirAll(dir, 0o755)
	defer os.RemoveAll(dir)
	os.WriteFile(filepath.Join(dir, "config.json"), d.fileJSON(), 0o600)
	single := map[string]string{}
	for _, h := range d.Lookups {
		dd := d
		dd.Lookups = []string{h}
		res, _ := c19Load(dd, dir)
		single[h] = res.String()
	}
	// every permutation of the lookups, plus repeats, on one ConfigFile
	hosts := append([]string(nil), d.Lookups...)
	permuteStrings(hosts, func(p []string) {
		dd := d
		dd.Lookups = append(append([]string(nil), p...), p...)
		res, _ := c19Load(dd, dir)
		if res.loadErr {
			return
		}
		for i, h := range dd.Lookups {
			if res.entries[i] != single[h] {
				r.Violate("lookups", "C19/depends-on-lookup-order/"+c19DocClass(d), dd, single[h], fmt.Sprintf("lookup %d (%s) in sequence %v gave %s", i, h, dd.Lookups, res.entries[i]))
				return
			}
		}
	})
}

func permuteStrings(xs []string, f func([]string)) {
	var rec func(k int)
	rec = func(k int) {
		if k == len(xs) {
			f(xs)
			return
		}
		for i := k; i < len(xs); i++ {
			xs[k], xs[i] = xs[i], xs[k]
			rec(k + 1)
			xs[k], xs[i] = xs[i], xs[k]
		}
	}
	rec(0)
}

func c19Docs(thorough bool) (orderDocs, precDocs []c19Doc) {
	// also the same machine on another port: a different registry host as far as lookups go
	keyForms := []string{"h", "https://h/v1", "http://h", "h/path", "//h", "https://h", "https://h:5000/v1/", "h:5000"}
	lookups := []string{"h", "g", "h/path", "other", "h:5000"}
	kinds3 := []string{"userpass", "auth", "identity"}
	maxKeys := 3
	for mask := 0; mask < 1<<len(keyForms); mask++ {
		var keys []string
		for i, k := range keyForms {
			if mask&(1<<i) != 0 {
				keys = append(keys, k)
			}
		}
		if len(keys) > maxKeys {
			continue
		}
		// assign kinds: all combinations for <= 2 keys, rotating assignment for 3
		var assign func(i int, cur []c19Entry)
		assign = func(i int, cur []c19Entry) {
			if i == len(keys) {
				for _, withG := range []bool{false, true} {
					d := c19Doc{Entries: append([]c19Entry(nil), cur...), Lookups: lookups}
					if withG {
						d.Entries = append(d.Entries, c19Entry{Key: "g", Kind: "userpass", ID: "G"}, c19Entry{Key: "https://g/v2/", Kind: "auth", ID: "G2"})
					}
					orderDocs = append(orderDocs, d)
				}
				return
			}
			ks := kinds3
			if len(keys) == 3 && !thorough {
				ks = []string{kinds3[i%3]}
			}
			for _, kind := range ks {
				assign(i+1, append(cur, c19Entry{Key: keys[i], Kind: kind, ID: fmt.Sprint(i)}))
			}
		}
		assign(0, nil)
	}
	// precedence documents: full entry menu, helpers
	allKinds := []string{"userpass", "auth", "auth-overrides", "auth-nocolon", "auth-nul", "auth-colonpw", "auth-emptypw", "auth-emptyuser", "auth-badb64", "identity", "registry", "ambiguous", "useronly", "empty"}
	behaviours := []string{"creds", "token", "notfound", "missing", "error"}
	tables := [][]c19Entry{nil}
	for _, k := range allKinds {
		tables = append(tables, []c19Entry{{Key: "h", Kind: k, ID: "1"}})
		tables = append(tables, []c19Entry{{Key: "https://h/v1", Kind: k, ID: "1"}})
		tables = append(tables, []c19Entry{{Key: "https://h/v1", Kind: k, ID: "1"}, {Key: "h", Kind: "userpass", ID: "2"}})
		tables = append(tables, []c19Entry{{Key: "https://h/v1", Kind: k, ID: "1"}, {Key: "http://h", Kind: "userpass", ID: "2"}})
	}
	for _, tb := range tables {
		for _, store := range append([]string{""}, behaviours...) {
			for _, helper := range append([]string{"", "same-as-store", "empty-name", "other-host-only"}, behaviours...) {
				d := c19Doc{Entries: tb, Lookups: lookups, Helpers: map[string]string{}}
				if store != "" {
					d.CredsStore = "s"
					d.Helpers["s"] = store
				}
				switch helper {
				case "":
				case "same-as-store":
					if store == "" {
						continue
					}
					d.CredHelpers = map[string]string{"h": "s"}
				case "empty-name":
					d.CredHelpers = map[string]string{"h": ""}
				case "other-host-only":
					d.CredHelpers = map[string]string{"unrelated.example": "x"}
					d.Helpers["x"] = "creds"
				default:
					d.CredHelpers = map[string]string{"h": "x"}
					d.Helpers["x"] = helper
				}
				precDocs = append(precDocs, d)
			}
		}
	}
	return
}

// c19SamePath: a file that is replaced in place by another document - also one of the same length and the
// same modification time (cp -p, rsync -t, mounted secrets, coarse timestamps) - is a different input:
// every load reads what the file holds now.
func c19SamePath(r *vcore.Run) (n int64) {
	dir := filepath.Join(vcore.Root, ".work", "c19", fmt.Sprint(os.Getpid()), "samepath")
	c19DirSeq.Lock()
	defer c19DirSeq.Unlock()
	os.MkdirAll(dir, 0o755)
	defer os.RemoveAll(dir)
	path := filepath.Join(dir, "config.json")
	stamp := time.Unix(1700000000, 0)
	docs := []c19Doc{
		{Entries: []c19Entry{{Key: "h", Kind: "userpass", ID: "1"}}, Lookups: []string{"h", "g"}},
		{Entries: []c19Entry{{Key: "h", Kind: "userpass", ID: "2"}}, Lookups: []string{"h", "g"}},
		{Entries: []c19Entry{{Key: "g", Kind: "userpass", ID: "3"}}, Lookups: []string{"h", "g"}},
		{Entries: []c19Entry{{Key: "h", Kind: "userpass", ID: "1"}}, Lookups: []string{"h", "g"}},
	}
	for _, fixTime := range []bool{true, false} {
		for round := 0; round < 2; round++ {
			for i, d := range docs {
				n++
				data := d.fileJSON()
				os.WriteFile(path, data, 0o600)
				if fixTime {
					os.Chtimes(path, stamp, stamp)
				}
				got, _ := c19Load(d, dir)
				if want := d.wantResult(); got.String() != want.String() {
					r.Violate("doc", "C19/same-path-new-contents/stale-result", map[string]any{"document": i, "round": round, "same_mtime": fixTime, "bytes": len(data)},
						want.String(), got.String())
					return
				}
			}
		}
	}
	return n
}

func c19Check(r *vcore.Run) vcore.Coverage {
	atomic.StoreInt64(&c19BudgetHits, 0)
	// instrumentation probe: a two-key document must produce more than one iteration order
	probe := c19Doc{Entries: []c19Entry{{Key: "h", Kind: "userpass", ID: "1"}, {Key: "g", Kind: "userpass", ID: "2"}}, Lookups: []string{"h"}}
	if n := c19Run(vcore.NewRun("C19", "quick", "exploration", "probe"), probe, true); n < 2 {
		r.Violate("doc", "C19/HARNESS-ERROR/instrumentation", probe, "map iteration in decodeConfigFile owned by the explorer (vrewrite overlay)", fmt.Sprintf("%d executions", n))
		return vcore.Coverage{}
	}
	orderDocs, precDocs := c19Docs(r.Thorough())
	var execs int64
	// vsync.Choose is a global hook: documents are explored sequentially
	for _, d := range orderDocs {
		execs += c19Run(r, d, true)
	}
	// lookups in every order on one ConfigFile, among them URL-shaped names that are not keys of the file
	// (a lookup leaves nothing behind that changes what a later lookup finds)
	for i, d := range orderDocs {
		if i%2 == 1 {
			continue // the variant with the unrelated host's entries
		}
		dd := d
		dd.Lookups = []string{"https://h/v0/", "h", "h:5000", "https://g/x"}
		c19LookupOrder(r, dd)
		execs += 24
	}
	for _, d := range precDocs {
		execs += c19Run(r, d, false)
		if len(d.Helpers) > 0 {
			c19LookupOrder(r, d)
		}
	}
	execs += c19SamePath(r)
	r.Sample("order-document", orderDocs[len(orderDocs)/2])
	r.Sample("precedence-document", precDocs[len(precDocs)/2])
	r.Notes["documents_all_orders"] = len(orderDocs)
	r.Notes["documents_precedence"] = len(precDocs)
	r.Notes["loads"] = execs
	r.Assume = []string{
		"the compared result is (ConfigEntry, failed?) per lookup; error text is not part of it",
		"a password decoded from the auth field is compared after trimming NUL bytes (docker compatibility, as the quantifier's 'password without trailing NUL' class)",
		"map iteration inside decodeConfigFile is owned through the vsync.MapIter hook installed by the build overlay: every order of the initial keys, and for entries inserted during the loop both 'visited at any later point' and 'never visited'",
	}
	r.Notes["documents_cut_at_the_iteration_order_budget"] = atomic.LoadInt64(&c19BudgetHits)
	return vcore.Coverage{Evaluations: execs, Nontrivial: int64(len(orderDocs) + len(precDocs)), Exhaustive: atomic.LoadInt64(&c19BudgetHits) == 0,
		Rule: fmt.Sprintf("%d documents with <= 3 keys for one host out of {h, https://h/v1, http://h, h/path, //h, https://h, https://h:5000/v1/, h:5000} (+ unrelated host) x entry kinds, each loaded through LoadWithEnv under EVERY map iteration order; %d precedence documents (14 entry kinds incl. malformed base64, no colon, empty user, NUL, colon in password, ambiguous) x credsStore x credHelpers x 5 helper behaviours (also per-host helper = default store, per-host entry naming no helper, helper for another host only) with every permutation of repeated lookups on one ConfigFile; every key document also looked up in every order of {an absent URL-shaped name, h, h:5000, another absent one}; evaluations = loads", len(orderDocs), len(precDocs))}
}

func c19Replay(r *vcore.Run, sub string, raw json.RawMessage) {
	var d c19Doc
	if json.Unmarshal(raw, &d) != nil {
		return
	}
	if sub == "lookups" {
		c19LookupOrder(r, d)
		return
	}
	c19Run(r, d, true)
}
