package props

import (
	"context"
	"encoding/json"
	"errors"
	"fmt"
	"sort"
	"strings"

	"cuelabs.dev/go/oci/ociregistry"
	"cuelabs.dev/go/oci/ociregistry/ociauth"
	"cuelabs.dev/go/oci/ociregistry/ocifilter"

	"verif/vcore"
)

// C13: Sub-registry confinement and equivalence with the restricted registry.

func init() {
	vcore.Register(&vcore.Prop{ID: "C13", Level: "model_checking", Engine: "E2-state", Check: c13Check, Replay: c13Replay})
}

// "foo|bar" = the view of a view: Sub(Sub(r, "foo"), "bar"), which must behave like Sub(r, "foo/bar")
var c13Prefixes = []string{"foo", "foo/bar", "foo|bar"}

func c13Sub(backend ociregistry.Interface, p string) ociregistry.Interface {
	for _, part := range strings.Split(p, "|") {
		backend = ocifilter.Sub(backend, part)
	}
	return backend
}

func c13Eff(p string) string { return strings.ReplaceAll(p, "|", "/") }

var c13Names = []string{"a", "a/b", "bar/c", "", ".", "..", "../other", "a/../../other", "../foo/a", "x/../a", "/a", "a/", "a//b", "A", "./a", "a/.", "../fooey/x", "../../other"}

var c13ScopeTexts = []string{
	"",
	"repository:a:pull",
	"repository:a:pull,push repository:b:pull",
	"registry:catalog:*",
	"other:x:y zz",
	"repository:a:delete repository:a:pull",
	"repository:../other:pull",
	"repository:a/b:push registry:catalog:* other",
	"repository:foo:pull repository:foo/x:push",
	"repository:foo/bar:pull repository:foo/bar/z:pull,push repository:fooey:pull",
	"*unlimited*",
}

func c13Scope(text string) ociauth.Scope {
	if text == "*unlimited*" {
		return ociauth.UnlimitedScope()
	}
	return ociauth.ParseScope(text)
}

// c13WantScope is the model of scope rewriting: every repository scope's
// name gets the prefix; everything else is untouched.
func c13WantScope(prefix, text string) ociauth.Scope {
	if text == "*unlimited*" {
		return ociauth.UnlimitedScope()
	}
	var out []ociauth.ResourceScope
	ociauth.ParseScope(text).Iter()(func(rs ociauth.ResourceScope) bool {
		if rs.ResourceType == ociauth.TypeRepository && rs.Resource != "" {
			rs.Resource = prefix + "/" + rs.Resource
		}
		out = append(out, rs)
		return true
	})
	return ociauth.NewScope(out...)
}

// c13ScopeTextWrong reports whether the TEXT of the scope the backend saw (what ociauth would send to a
// token server) names anything other than the prefixed repositories; computed on plain triples,
// independently of ociauth.Scope's set operations.
func c13ScopeTextWrong(prefix, text string, got ociauth.Scope) (string, bool) {
	if text == "*unlimited*" || got.IsUnlimited() {
		return "", false
	}
	want := map[[3]string]bool{}
	for k := range scopeSet(text) {
		if k[0] == ociauth.TypeRepository && k[1] != "" {
			k[1] = prefix + "/" + k[1]
		}
		want[k] = true
	}
	gotText := got.String()
	if !setEqual(scopeSet(gotText), want) {
		return gotText, true
	}
	return "", false
}

type c13Case struct {
	Prefix string `json:"prefix"`
	Method string `json:"method"`
	Name   string `json:"name"`
	From   string `json:"from,omitempty"`
	Scope  string `json:"scope"`
	// NoRange: the backend does not implement GetBlobRange (it answers "unsupported"); the call asks for the
	// whole blob as a range. Whatever the view does instead goes to the prefixed repository too.
	NoRange bool `json:"backend_without_range_support,omitempty"`
	// Args: which values the arguments other than names take: "" = distinctive ones (an upload ID, offsets 0
	// and 2, chunk size 2, tag "t"); "zeros" = empty ID and tag, zero offsets and chunk size; "minus" = empty ID,
	// offsets and chunk size -1. Confinement holds whatever those are.
	Args string `json:"argument_values,omitempty"`
}

func nameClass(n string) string {
	switch {
	case n == "":
		return "empty"
	case strings.Contains(n, ".."):
		return "dotdot"
	case n == "." || strings.HasPrefix(n, "./") || strings.HasSuffix(n, "/.") || strings.Contains(n, "/./"):
		return "dot"
	case strings.HasPrefix(n, "/"):
		return "leading-slash"
	case strings.HasSuffix(n, "/"):
		return "trailing-slash"
	case strings.Contains(n, "//"):
		return "double-slash"
	case !refRepo(n):
		return "invalid-other"
	}
	return "valid"
}

func c13RunConfine(r *vcore.Run, c c13Case) {
	backend := newRecBackend()
	backend.Repos = []string{"foo", "foo/a", "foo/a/b", "foo/bar/c", "fooey/x", "other"}
	bf := backend.Funcs()
	if c.NoRange {
		bf.GetBlobRange_ = nil
	}
	sub := c13Sub(bf, c.Prefix)
	ctx := context.Background()
	if c.Scope != "" {
		ctx = ociauth.ContextWithScope(ctx, c13Scope(c.Scope))
	}
	a := opArgs{Repo: c.Name, From: c.From, Tag: "t", ID: "upload-id-1", Digest: c12Dig, O0: 0, O1: 2, Chunk: 2,
		DescDigest: c12Dig, DescSize: 5, Data: []byte("hello"), MediaType: "application/octet-stream"}
	if c.NoRange {
		a.O1 = -1
	}
	switch c.Args {
	case "zeros":
		a.ID, a.Tag, a.O0, a.O1, a.Chunk = "", "", 0, 0, 0
	case "minus":
		a.ID, a.O0, a.O1, a.Chunk = "", -1, -1, -1
	}
	fp := fmt.Sprintf("C13/%s", c.Method)
	if r.Guard("confine", fp+"/scope-"+c13ScopeClass(c.Scope), c, func() {
		res := callMethod(ctx, sub, c.Method, a)
		c12UseWriter(res)
	}) {
		return
	}
	c13Judge(r, c, fp, c13Eff(c.Prefix), backend.topCalls())
	if !strings.Contains(c.Prefix, "|") || c.Scope == "" {
		return
	}
	// a view and the view derived from it, both in use with the same context scope: what one of them has
	// worked out for a scope must not be what the other one sends
	parts := strings.SplitN(c.Prefix, "|", 2)
	for _, order := range []string{"parent-first", "child-first"} {
		b2 := newRecBackend()
		b2.Repos = backend.Repos
		parent := ocifilter.Sub(b2.Funcs(), parts[0])
		child := c13Sub(parent, parts[1])
		first, second, effSecond := parent, child, c13Eff(c.Prefix)
		if order == "child-first" {
			first, second, effSecond = child, parent, parts[0]
		}
		n0 := 0
		if r.Guard("confine", fp+"/"+order+"/scope-"+c13ScopeClass(c.Scope), c, func() {
			c12UseWriter(callMethod(ctx, first, c.Method, a))
			n0 = len(b2.topCalls())
			c12UseWriter(callMethod(ctx, second, c.Method, a))
		}) {
			return
		}
		c13Judge(r, c, fp+"/view-and-derived-view/"+order, effSecond, b2.topCalls()[n0:])
	}
}

// c13Judge compares what the backend received with what a view with the effective prefix eff must send.
func c13Judge(r *vcore.Run, c c13Case, fp, eff string, calls []recCall) {
	check := func(what, given, got string) {
		want := eff + "/" + given
		if got == want {
			r.Outcome("mapped-exactly")
			return
		}
		if !refRepo(got) {
			r.Outcome("backend-got-invalid-name")
			return // cannot name any repository
		}
		under := strings.HasPrefix(got, eff+"/")
		kind := "alias-inside-prefix"
		if !under {
			kind = "escapes-prefix"
		}
		r.Violate("confine", fmt.Sprintf("%s/%s/%s/name-%s", fp, what, kind, nameClass(given)), c, fmt.Sprintf("backend %s argument %q (or no call)", what, want), fmt.Sprintf("%q", got))
	}
	for _, cl := range calls {
		if cl.Method == "Repositories" {
			continue
		}
		check("repository", c.Name, cl.Repo)
		if cl.Method == "MountBlob" {
			check("from-repository", c.From, cl.FromRepo)
		}
		got := ociauth.ScopeFromContext(cl.ctx)
		want := c13WantScope(eff, c.Scope)
		if !got.Equal(want) {
			r.Violate("confine", fmt.Sprintf("%s/scope-not-rewritten/scope-%s", fp, c13ScopeClass(c.Scope)), c, want.Canonical().String(), got.Canonical().String())
		} else if txt, bad := c13ScopeTextWrong(eff, c.Scope, got); bad {
			r.Violate("confine", fmt.Sprintf("%s/scope-text-not-rewritten/scope-%s", fp, c13ScopeClass(c.Scope)), c, "String() of the rewritten scope names the prefixed repositories: "+want.Canonical().String(), txt)
		}
	}
}

func c13ScopeClass(text string) string {
	switch {
	case text == "":
		return "none"
	case text == "*unlimited*":
		return "unlimited"
	case strings.Contains(text, ".."):
		return "dotdot"
	case strings.Contains(text, "repository:foo"):
		return "repository-named-like-prefix"
	case !strings.Contains(text, "repository:"):
		return "no-repository"
	}
	return "repository"
}

type c13ListCase struct {
	Prefix    string   `json:"prefix"`
	Repos     []string `json:"backend_repositories"`
	After     string   `json:"start_after"`
	StopAfter int      `json:"stop_after"`
	ErrAfter  int      `json:"backend_error_after"`
	Scope     string   `json:"scope"`
}

func c13RunList(r *vcore.Run, c c13ListCase) {
	backend := newRecBackend()
	backend.Repos = c.Repos
	if c.ErrAfter >= 0 {
		backend.ListErrAfter, backend.ListErr = c.ErrAfter, c12BackendErr
	}
	sub := c13Sub(backend.Funcs(), c.Prefix)
	ctx := context.Background()
	if c.Scope != "" {
		ctx = ociauth.ContextWithScope(ctx, c13Scope(c.Scope))
	}
	fp := "C13/Repositories"
	var res opResult
	if r.Guard("list", fp+"/scope-"+c13ScopeClass(c.Scope), c, func() {
		res = callMethod(ctx, sub, "Repositories", opArgs{StartAfter: c.After, StopAfter: c.StopAfter})
	}) {
		return
	}
	// model: stripped names strictly after the start point
	var all []string
	for _, n := range c.Repos {
		if s, ok := strings.CutPrefix(n, c13Eff(c.Prefix)+"/"); ok {
			all = append(all, s)
		}
	}
	sort.Strings(all)
	var want []string
	for _, s := range all {
		if s > c.After {
			want = append(want, s)
		}
	}
	if c.ErrAfter < 0 {
		if c.StopAfter > 0 && len(want) > c.StopAfter {
			want = want[:c.StopAfter]
		}
		if res.Out != strings.Join(want, ",") || res.Err != nil {
			kind := "items-differ"
			if c.After != "" {
				kind = "items-differ-with-start-point"
			}
			r.Violate("list", fp+"/"+kind, c, strings.Join(want, ","), res.text())
		}
	} else {
		// with an injected backend error: delivered items must be a prefix of the model sequence, and
		// either the error is delivered or the consumer stopped first.
		got := []string{}
		if res.Out != "" {
			got = strings.Split(res.Out, ",")
		}
		okPrefix := len(got) <= len(want)
		for i := 0; okPrefix && i < len(got); i++ {
			okPrefix = got[i] == want[i]
		}
		if !okPrefix {
			r.Violate("list", fp+"/items-not-a-prefix-under-error", c, "prefix of "+strings.Join(want, ","), res.text())
		}
		stopped := c.StopAfter > 0 && len(got) >= c.StopAfter
		if res.Err == nil && !stopped && len(got) < len(want) {
			r.Violate("list", fp+"/silently-short", c, "complete list or an error", res.text())
		}
		if res.Err != nil && !errors.Is(res.Err, c12BackendErr) {
			r.Violate("list", fp+"/error-identity", c, c12BackendErr.Error(), res.Err.Error())
		}
	}
	if res.Post != "" {
		r.Violate("list", fp+"/consumer-called-after-stop", c, "no calls after stop/error", res.Post)
	}
	if c.ErrAfter < 0 {
		// the backend's iterator value can be traversed again with the same result; so can the view's
		// (the scope check below then covers the backend calls of both traversals)
		r.Guard("list", fp+"/second-traversal", c, func() {
			id := func(s string) string { return s }
			twin := newRecBackend()
			twin.Repos = c.Repos
			direct := twin.Funcs().Repositories(ctx, c13Eff(c.Prefix)+"/"+c.After)
			d1, _, _ := consumeSeq(direct, c.StopAfter, id)
			d2, _, _ := consumeSeq(direct, c.StopAfter, id)
			seq := sub.Repositories(ctx, c.After)
			s1, _, _ := consumeSeq(seq, c.StopAfter, id)
			s2, e2, _ := consumeSeq(seq, c.StopAfter, id)
			if strings.Join(d1, ",") == strings.Join(d2, ",") && (strings.Join(s1, ",") != strings.Join(s2, ",") || e2 != nil) {
				r.Violate("list", fp+"/second-traversal-differs", c, strings.Join(s1, ","), fmt.Sprintf("%s err=%v", strings.Join(s2, ","), e2))
			}
		})
	}
	for _, cl := range backend.topCalls() {
		got := ociauth.ScopeFromContext(cl.ctx)
		if want := c13WantScope(c13Eff(c.Prefix), c.Scope); !got.Equal(want) {
			r.Violate("list", fp+"/scope-not-rewritten/scope-"+c13ScopeClass(c.Scope), c, want.Canonical().String(), got.Canonical().String())
		} else if txt, bad := c13ScopeTextWrong(c13Eff(c.Prefix), c.Scope, got); bad {
			r.Violate("list", fp+"/scope-text-not-rewritten/scope-"+c13ScopeClass(c.Scope), c, "String() names the prefixed repositories: "+want.Canonical().String(), txt)
		}
	}
	r.Outcome(fmt.Sprintf("list n=%d", len(want)))
}

func c13Check(r *vcore.Run) vcore.Coverage {
	var evals, nontrivial int64
	var cases []c13Case
	for _, p := range c13Prefixes {
		for _, m := range allMethods {
			if m == "Repositories" {
				continue
			}
			for _, n := range c13Names {
				for _, sc := range c13ScopeTexts {
					if m == "MountBlob" {
						for _, from := range c13Names {
							if !r.Thorough() && from != "a" && n != "a" {
								continue
							}
							cases = append(cases, c13Case{Prefix: p, Method: m, Name: n, From: from, Scope: sc})
						}
					} else {
						cases = append(cases, c13Case{Prefix: p, Method: m, Name: n, Scope: sc})
						if m == "GetBlobRange" {
							cases = append(cases, c13Case{Prefix: p, Method: m, Name: n, Scope: sc, NoRange: true})
						}
					}
				}
			}
		}
	}
	// the same cases with other values for the arguments that are not names (valid caller names only: the
	// name classes are covered above)
	for _, c := range append([]c13Case(nil), cases...) {
		if c.NoRange || nameClass(c.Name) != "valid" || (c.Scope != "" && c13ScopeClass(c.Scope) != "repository") {
			continue
		}
		switch c.Method {
		case "PushBlobChunked", "PushBlobChunkedResume", "GetBlobRange", "PushManifest", "Tags", "Referrers":
			for _, v := range []string{"zeros", "minus"} {
				c.Args = v
				cases = append(cases, c)
			}
		}
	}
	vcore.ParallelN(len(cases), func(i int) { c13RunConfine(r, cases[i]) })
	evals += int64(len(cases))
	for _, c := range cases {
		if nameClass(c.Name) != "valid" || c.Scope != "" {
			nontrivial++
		}
	}
	// listings
	universe := []string{"foo", "foo-x/a", "foo/a", "foo/a/b", "foo/bar", "foo/bar/c", "foo/bar/d", "fooey/x", "other"}
	if !r.Thorough() {
		universe = []string{"foo", "foo-x/a", "foo/a", "foo/bar/c", "foo/bar/d", "fooey/x", "other"}
	}
	var lists []c13ListCase
	for mask := 0; mask < 1<<len(universe); mask++ {
		var repos []string
		for i, n := range universe {
			if mask&(1<<i) != 0 {
				repos = append(repos, n)
			}
		}
		for _, p := range c13Prefixes {
			afters := []string{"", "a", "a/b", "b", "bar/c", "bar/c0", "c", "zzz", "0", "a&b=c", "a b", "foo/a", p + "/a"}
			for _, after := range afters {
				for stop := 0; stop <= 3; stop++ {
					for ea := -1; ea <= 2; ea++ {
						if ea >= 0 && !r.Thorough() && (stop > 1 || after != "") {
							continue
						}
						sc := ""
						if mask%3 == 0 {
							sc = c13ScopeTexts[(mask/3)%len(c13ScopeTexts)]
						}
						lists = append(lists, c13ListCase{Prefix: p, Repos: repos, After: after, StopAfter: stop, ErrAfter: ea, Scope: sc})
					}
				}
			}
		}
	}
	vcore.ParallelN(len(lists), func(i int) { c13RunList(r, lists[i]) })
	evals += int64(len(lists))
	nontrivial += int64(len(lists))
	// differential histories against the restricted registry
	st := c13Equiv(r)
	r.Sample("confine", c13Case{Prefix: "foo", Method: "GetBlob", Name: "../other", Scope: "repository:a:pull"})
	r.Sample("listing", c13ListCase{Prefix: "foo", Repos: []string{"foo/a", "foo/bar/c", "fooey/x"}, After: "b", StopAfter: 0, ErrAfter: -1})
	r.Assume = []string{
		"a backend argument that is not a syntactically valid repository name cannot reach any repository (backends validate names); a valid name different from prefix/n is a violation",
		"scope rewriting is checked on ociauth.ScopeFromContext only (RequestInfo is not rewritten by the library and the property does not mention it)",
	}
	return vcore.Coverage{Evaluations: evals + st.transitions, Nontrivial: nontrivial + st.states, Exhaustive: true,
		States: st.states, Transitions: st.transitions, TracesImpl: st.transitions,
		Rule: fmt.Sprintf("confinement: %d prefixes x 17 methods x %d caller names (hostile ones included; mount: both arguments) x %d context scopes against a recording backend; listings: all subsets of a %d-name sibling universe x start points x stop-after-k x backend-error-after-j; equivalence: BFS over histories through Sub(ocimem) vs the independently built restricted ocimem (states/transitions); non-trivial = hostile name or non-empty scope, every listing, every distinct state", len(c13Prefixes), len(c13Names), len(c13ScopeTexts), len(universe)),
	}
}

func c13Replay(r *vcore.Run, sub string, raw json.RawMessage) {
	switch sub {
	case "list":
		var c c13ListCase
		if json.Unmarshal(raw, &c) == nil {
			c13RunList(r, c)
		}
	case "confine":
		var c c13Case
		if json.Unmarshal(raw, &c) == nil {
			c13RunConfine(r, c)
		}
	default:
		c13EquivReplay(r, raw)
	}
}

var _ = ociregistry.ErrDenied
