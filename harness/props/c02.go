package props

import (
	"bytes"
	"context"
	"encoding/json"
	"fmt"
	"os"
	"regexp"
	"strings"
	"time"

	"cuelabs.dev/go/oci/ociregistry"
	"cuelabs.dev/go/oci/ociregistry/ocimem"

	"verif/vcore"
	"verif/vstate"
)

// C02: ocimem follows the reference semantics. E2: BFS over operation
// histories on the real *ocimem.Registry, reference model oracle on every
// transition and a full read sweep in every reached state.

func init() {
	vcore.Register(&vcore.Prop{ID: "C02", Level: "model_checking", Engine: "E2-state", Check: c02Check, Replay: c02Replay})
}

var fpClean = regexp.MustCompile(`"[^"]*"|sha256:[0-9a-f]+|[0-9a-f]{12,}|\[[^\]]*\]|\d+`)

func fpClass(s string) string {
	s = fpClean.ReplaceAllString(s, "")
	if len(s) > 70 {
		s = s[:70]
	}
	return s
}

// regSys is a System over one real registry stack, checked against the model.
type regSys struct {
	r         *vcore.Run
	prop      string
	mode      string
	u         *universe
	cfg       alphabetConfig
	static    []Op
	reg       ociregistry.Interface
	raw       any // what to dump for the key (the real registry object graph)
	handles   []ociregistry.BlobWriter
	alts      map[int]ociregistry.BlobWriter // second writer value of a session (alphabetConfig.TwoHandles)
	model     *Model
	hist      []Op
	queries   []Query
	ctx       context.Context
	extraKey  func() string
	postCheck func(s *regSys, op Op, out Outcome) // property-specific invariants after each checked transition
	// onStep runs after every transition, also while replaying (check=false):
	// history monitors rebuild their state here and report only when check is set.
	backdoor  ociregistry.Interface // the registry underneath a wrapper, for operations made behind the wrapper's back
	preKey    string
	depth     int              // search depth of the state being produced (set by vstate.BFS)
	opFilter  func(op Op) bool // optional restriction of the enabled operations in the current state
	onStep    func(s *regSys, op Op, out Outcome, check bool) (tainted bool)
	noOracle  bool // the reference model only tracks (follows the implementation); no model comparison
	sub       string
	heldLists bool // the sweep also obtains all listings first and consumes them afterwards (direct registries)
	hint      int  // chunk-size hint passed to PushBlobChunked / PushBlobChunkedResume
}

type c02Case struct {
	Mode    string   `json:"mode"`
	History []Op     `json:"history"`
	Text    []string `json:"text"`
}

func (s *regSys) caseOf(op *Op) c02Case {
	h := append([]Op(nil), s.hist...)
	if op != nil {
		h = append(h, *op)
	}
	return c02Case{Mode: s.mode, History: h, Text: opsText(h)}
}

func (s *regSys) Enabled() []Op {
	ops := s.enabledAll()
	if s.opFilter == nil {
		return ops
	}
	var out []Op
	for _, op := range ops {
		if s.opFilter(op) {
			out = append(out, op)
		}
	}
	return out
}

func (s *regSys) enabledAll() []Op {
	ops := append([]Op(nil), s.static...)
	if !s.cfg.Chunked {
		return ops
	}
	if len(s.handles) < s.cfg.MaxUploads {
		for _, r := range s.cfg.Repos {
			ops = append(ops, Op{K: "Start", Repo: r})
		}
	}
	if s.cfg.ExplicitIDs && len(s.handles) < s.cfg.MaxUploads+1 {
		// the same caller-chosen upload ID in each repository (ocimem accepts chosen IDs): sessions of
		// different repositories must not share state
		for _, r := range s.cfg.Repos {
			dup := false
			for _, up := range s.model.Uploads {
				if up.Repo == r && up.Explicit {
					dup = true
				}
			}
			if !dup {
				ops = append(ops, Op{K: "Start", Repo: r, Off: "id", Piece: "xid"})
			}
		}
	}
	for h, up := range s.model.Uploads {
		if s.handles[h] == nil {
			continue
		}
		switch up.State {
		case "open":
			for _, p := range []string{"a", "bc"} {
				if len(up.Buf)+len(p) <= s.cfg.MaxUpload {
					ops = append(ops, Op{K: "Write", H: h, Piece: p})
				}
			}
			ops = append(ops, Op{K: "Resume", H: h, Off: "size"}, Op{K: "Resume", H: h, Off: "-1"}, Op{K: "Resume", H: h, Off: "wrong"})
			if len(up.Buf) > 0 {
				ops = append(ops, Op{K: "Resume", H: h, Off: "zero"})
			}
			ops = append(ops, Op{K: "Commit", H: h}, Op{K: "Commit", H: h, Bad: "digest"}, Op{K: "Cancel", H: h})
			if s.cfg.TwoHandles {
				ops = append(ops, Op{K: "Resume", H: h, Off: "size", W: 1}, Op{K: "Resume", H: h, Off: "-1", W: 1}, Op{K: "Resume", H: h, Off: "zero", W: 1}, Op{K: "Resume", H: h, Off: "wrong", W: 1})
				if s.alts[h] != nil {
					for _, p := range []string{"a", "bc"} {
						if len(up.Buf)+len(p) <= s.cfg.MaxUpload {
							ops = append(ops, Op{K: "Write", H: h, Piece: p, W: 1})
						}
					}
					ops = append(ops, Op{K: "Commit", H: h, W: 1})
				}
			}
		case "failed":
			ops = append(ops, Op{K: "Commit", H: h}, Op{K: "Cancel", H: h})
		case "committed", "cancelled":
			// reuse of a finished session's ID: whatever the registry answers (the statement is silent),
			// content committed earlier must stay intact (checked by the sweep)
			if s.cfg.CancelAfterCommit && !s.cfg.FinishedOps && up.State == "committed" {
				// the documented defer idiom: Cancel after a successful Commit is a no-op
				ops = append(ops, Op{K: "Cancel", H: h})
			}
			if s.cfg.FinishedOps && len(up.Buf) < s.cfg.MaxUpload+2 {
				ops = append(ops, Op{K: "Resume", H: h, Off: "zero"}, Op{K: "Resume", H: h, Off: "-1"}, Op{K: "Write", H: h, Piece: "ZZ"})
				if up.State == "committed" {
					ops = append(ops, Op{K: "Cancel", H: h})
					// a retried final request: the digest of the first commit again, whatever the session holds by now
					ops = append(ops, Op{K: "Commit", H: h, Off: "recommit"}, Op{K: "Resume", H: h, Off: "size"})
				}
			}
		}
	}
	return ops
}

// scribble overwrites a buffer the harness handed to the registry: stored content must not alias it.
func scribble(b []byte) {
	for i := range b {
		b[i] ^= 0xA5
	}
}

func outcomeOf(d ociregistry.Descriptor, err error) Outcome {
	if err != nil {
		return Outcome{OK: false, Code: errCodeOf(err), Err: err.Error()}
	}
	return Outcome{OK: true, Desc: d}
}

func (s *regSys) exec(op Op) (out Outcome) {
	ctx := s.ctx
	if op.Ctx == "done" {
		c, cancel := context.WithCancel(ctx)
		cancel()
		ctx = c
	}
	u := s.u
	switch op.K {
	case "PushBlob":
		data := u.Blobs[op.B]
		d := descOf(blobMT(op), data)
		switch op.Bad {
		case "digest":
			d.Digest = sha256Digest([]byte("some other content"))
		case "size":
			d.Size++
		}
		buf := append([]byte(nil), data...)
		if op.Bad == "overlong" {
			buf = append(buf, "+more"...) // the stream goes on after the declared size
		}
		out := outcomeOf(s.reg.PushBlob(ctx, op.Repo, d, bytes.NewReader(buf)))
		scribble(buf) // the caller may reuse its buffer once the call has returned
		return out
	case "PushManifest":
		um := u.Manifests[op.M]
		buf := append([]byte(nil), um.Data...)
		out := outcomeOf(s.reg.PushManifest(ctx, op.Repo, op.Tag, buf, um.MediaType))
		scribble(buf)
		return out
	case "Mount":
		out := outcomeOf(s.reg.MountBlob(ctx, op.From, op.Repo, sha256Digest(u.Blobs[op.B])))
		return out
	case "DeleteBlob":
		return outcomeOf(ociregistry.Descriptor{}, s.reg.DeleteBlob(ctx, op.Repo, sha256Digest(u.Blobs[op.B])))
	case "DeleteManifest":
		return outcomeOf(ociregistry.Descriptor{}, s.reg.DeleteManifest(ctx, op.Repo, sha256Digest(u.Manifests[op.M].Data)))
	case "DeleteTag":
		return outcomeOf(ociregistry.Descriptor{}, s.reg.DeleteTag(ctx, op.Repo, op.Tag))
	case "Start":
		var w ociregistry.BlobWriter
		var err error
		if op.Off == "id" {
			w, err = s.reg.PushBlobChunkedResume(ctx, op.Repo, op.Piece, 0, s.hint)
		} else {
			w, err = s.reg.PushBlobChunked(ctx, op.Repo, s.hint)
		}
		if err != nil {
			s.handles = append(s.handles, nil)
			return outcomeOf(ociregistry.Descriptor{}, err)
		}
		s.handles = append(s.handles, w)
		if w.Size() != 0 {
			return Outcome{OK: false, Err: fmt.Sprintf("new upload reports size %d", w.Size())}
		}
		return Outcome{OK: true}
	case "Resume":
		h := s.handles[op.H]
		if op.W == 1 && s.alts[op.H] != nil {
			h = s.alts[op.H]
		}
		up := s.model.Uploads[op.H]
		var off int64
		switch op.Off {
		case "size":
			off = h.Size()
		case "-1":
			off = -1
		case "wrong":
			off = h.Size() + 1
		case "zero":
			off = 0
		case "num":
			off = op.N
		}
		if op.W == 1 {
			// the first writer value stays open in the caller's hands; only an earlier second one is closed
			if a := s.alts[op.H]; a != nil {
				a.Close()
			}
			w, err := s.reg.PushBlobChunkedResume(ctx, up.Repo, h.ID(), off, s.hint)
			if err != nil {
				return outcomeOf(ociregistry.Descriptor{}, err)
			}
			if s.alts == nil {
				s.alts = map[int]ociregistry.BlobWriter{}
			}
			s.alts[op.H] = w
			return Outcome{OK: true}
		}
		h.Close()
		w, err := s.reg.PushBlobChunkedResume(ctx, up.Repo, h.ID(), off, s.hint)
		if err != nil {
			return outcomeOf(ociregistry.Descriptor{}, err)
		}
		s.handles[op.H] = w
		return Outcome{OK: true}
	case "Write":
		h := s.handles[op.H]
		if op.W == 1 {
			h = s.alts[op.H]
		}
		piece := []byte(op.Piece)
		n, err := h.Write(piece)
		scribble(piece)
		if err != nil {
			return outcomeOf(ociregistry.Descriptor{}, err)
		}
		if n != len(op.Piece) {
			return Outcome{OK: false, Err: fmt.Sprintf("short write %d of %d without error", n, len(op.Piece))}
		}
		return Outcome{OK: true, N: n}
	case "Commit":
		h := s.handles[op.H]
		if op.W == 1 {
			h = s.alts[op.H]
		}
		dig := sha256Digest(s.model.Uploads[op.H].Buf)
		if op.Bad != "" {
			dig = sha256Digest([]byte("not the uploaded bytes"))
		}
		if op.Off == "explicit" {
			dig = sha256Digest([]byte(op.Piece))
		}
		if op.Off == "recommit" {
			dig = sha256Digest(s.model.Uploads[op.H].Committed)
		}
		return outcomeOf(h.Commit(dig))
	case "Cancel":
		return outcomeOf(ociregistry.Descriptor{}, s.handles[op.H].Cancel())
	case "BackdoorDeleteManifest":
		return outcomeOf(ociregistry.Descriptor{}, s.backdoor.DeleteManifest(ctx, op.Repo, sha256Digest(u.Manifests[op.M].Data)))
	case "Reads":
		for _, q := range s.queries {
			runQuery(ctx, s.reg, q)
		}
		return Outcome{OK: true}
	}
	panic("exec: unknown op " + op.K)
}

// SetDepth is called by the search before a checked transition.
func (s *regSys) SetDepth(d int) { s.depth = d }

// PreSweepKey is the state key taken after the checked operation and before the read sweep that
// follows it: successors are rebuilt by replaying the history WITHOUT sweeps, so the key a history is
// remembered under must not contain what the sweep itself left behind in the registry (a cache filled
// by reading would otherwise make "history + Reads" look already visited and never be expanded).
func (s *regSys) PreSweepKey() string { return s.preKey }

func (s *regSys) Apply(op Op, check bool) (tainted bool) {
	s.preKey = ""
	fpBase := fmt.Sprintf("%s/%s/%s", s.prop, s.mode, op.K)
	sub := s.sub
	if sub == "" {
		sub = "history"
	}
	if !check {
		out := s.exec(op)
		s.model.Advance(s.u, op, out.OK)
		s.hist = append(s.hist, op)
		if s.onStep != nil {
			s.onStep(s, op, out, false)
		}
		return false
	}
	pred := s.model.Predict(s.u, op)
	var out Outcome
	if s.r.Guard(sub, fpBase, s.caseOf(&op), func() { out = s.exec(op) }) {
		return true
	}
	if op.K == "Start" && strings.HasPrefix(out.Err, "new upload reports size") {
		// a registry may refuse an upload ID it never issued, but a session it does hand out for an ID
		// that is new to this repository is a new session
		s.r.Violate(sub, fpBase+"/new-session-not-empty", s.caseOf(&op), "a session started under an ID never used in this repository is empty", out.Err)
		s.model.Advance(s.u, op, false)
		s.hist = append(s.hist, op)
		return true
	}
	if s.noOracle {
		s.model.Advance(s.u, op, out.OK)
		s.hist = append(s.hist, op)
		if s.onStep != nil {
			s.r.Guard(sub, fpBase+"/monitor", s.caseOf(nil), func() { tainted = s.onStep(s, op, out, true) })
		}
		if s.postCheck != nil {
			s.postCheck(s, op, out)
		}
		return tainted
	}
	if mism := pred.Check(out); mism != "" {
		s.r.Violate(sub, fpBase+"/"+fpClass(mism), s.caseOf(&op), pred.Why, mism)
		tainted = true
	}
	// size of an upload handle must equal the bytes accepted
	s.model.Advance(s.u, op, out.OK)
	s.hist = append(s.hist, op)
	if tainted {
		return true
	}
	for h, up := range s.model.Uploads {
		if s.handles[h] != nil && up.State == "open" {
			if a := s.alts[h]; a != nil {
				if got := a.Size(); got != int64(len(up.Buf)) {
					s.r.Violate(sub, fpBase+"/upload-size-second-writer", s.caseOf(nil), fmt.Sprintf("Size()=%d", len(up.Buf)), fmt.Sprintf("Size()=%d", got))
					tainted = true
				}
			}
			if got := s.handles[h].Size(); got != int64(len(up.Buf)) {
				s.r.Violate(sub, fpBase+"/upload-size", s.caseOf(nil), fmt.Sprintf("Size()=%d", len(up.Buf)), fmt.Sprintf("Size()=%d", got))
				tainted = true
			}
		}
	}
	s.preKey = s.Key()
	if s.r.Guard(sub, fpBase+"/sweep", s.caseOf(nil), func() {
		queries := s.queries
		// content committed through upload sessions is not part of the fixed universe: query it too
		known := map[string]bool{}
		for _, q := range s.queries {
			known[q.Repo+"|"+q.Dig] = true
		}
		for name, mr := range s.model.Repos {
			for d := range mr.Blobs {
				if !known[name+"|"+string(d)] {
					queries = append(append([]Query(nil), queries...), Query{K: "GetBlob", Repo: name, Dig: string(d), What: "uploaded"}, Query{K: "ResolveBlob", Repo: name, Dig: string(d), What: "uploaded"})
				}
			}
		}
		var held map[string]string
		if s.heldLists {
			held = heldListings(s.ctx, s.reg, queries)
		}
		for _, q := range queries {
			obs := runQuery(s.ctx, s.reg, q)
			if h, ok := held[q.String()]; ok {
				if now := fmt.Sprintf("%v err=%v", obs.Items, !obs.OK); now != h {
					s.r.Violate(sub, fmt.Sprintf("%s/%s/after-%s/%s/listing-held-while-others-were-obtained-differs", s.prop, s.mode, op.K, q.K), s.caseOf(nil),
						"a listing obtained before other listings delivers what the same listing delivers on its own: "+now, q.String()+": "+h)
					tainted = true
				}
			}
			if mism := s.model.CheckObs(s.u, obs); mism != "" {
				s.r.Violate(sub, fmt.Sprintf("%s/%s/after-%s/%s/%s", s.prop, s.mode, op.K, q.K, fpClass(mism)), s.caseOf(nil),
					"agreement with the reference model", q.String()+": "+mism)
				tainted = true
			}
		}
	}) {
		return true
	}
	if s.onStep != nil {
		if s.onStep(s, op, out, true) {
			tainted = true
		}
	}
	if s.postCheck != nil {
		s.postCheck(s, op, out)
	}
	return tainted
}

func (s *regSys) Key() string {
	d := vstate.NewDumper()
	d.AutoIDs = true // upload IDs are named in order of first appearance; handles are dumped first, in handle order
	for _, h := range s.handles {
		if h != nil {
			d.NameID(h.ID())
		}
	}
	for i, h := range s.handles {
		d.Add(fmt.Sprintf("h%d", i), h)
		if a := s.alts[i]; a != nil {
			d.Add(fmt.Sprintf("h%d/writer1", i), a)
		}
	}
	d.Add("reg", s.raw)
	if w, ok := s.reg.(interface{}); ok && !sameObject(s.reg, s.raw) {
		// the object under test when it is a wrapper around the raw registry: any state it keeps
		// (a cache, a memo) is part of the state, or successors of a poisoned wrapper are never explored
		d.SkipTypes = append(d.SkipTypes, "verif/props.") // harness-side fakes contribute through extraKey
		d.Add("wrapper", w)
	}
	k := d.String() + "\nmodel=" + s.model.Key()
	if s.extraKey != nil {
		k += "\n" + s.extraKey()
	}
	return k
}

// sameObject: reg is the raw registry itself (pointer identity).
func sameObject(a ociregistry.Interface, raw any) bool {
	r, ok := raw.(ociregistry.Interface)
	return ok && a == r
}

func c02Alphabet(u *universe, tier string, chunked bool) alphabetConfig {
	c := alphabetConfig{Repos: u.Repos, BadRepo: true, Chunked: chunked, MaxUploads: 1, MaxUpload: 3,
		Manifests: []int{0, 1, 2, 3, 4, 5, 6, 7, 8, 9, 10, 11}, Blobs: []int{0, 1, 2}, Deletes: true, Mounts: true, BadPushes: true, UntaggedToo: true, FinishedOps: true, ExplicitIDs: true, AltBlobMT: true, ReadsOp: true, SelfMounts: true}
	return c
}

func newMemSys(r *vcore.Run, prop string, u *universe, cfg alphabetConfig, immutable bool) *regSys {
	reg := ocimem.NewWithConfig(&ocimem.Config{ImmutableTags: immutable})
	mode := "mutable"
	if immutable {
		mode = "immutable-tags"
	}
	return &regSys{r: r, prop: prop, mode: mode, u: u, cfg: cfg, static: u.staticOps(cfg), reg: reg, raw: reg,
		model: NewModel(immutable), queries: sweepQueries(u, append(append([]string(nil), u.Repos...), "q")), ctx: context.Background(), heldLists: true}
}

// c02Seeds are non-initial start states (histories replayed without checks).
func c02Seeds() [][]Op {
	return [][]Op{
		// image with its blobs, tagged; index over it
		{{K: "PushBlob", Repo: "r", B: 1}, {K: "PushBlob", Repo: "r", B: 2}, {K: "PushManifest", Repo: "r", M: 1, Tag: "t"}, {K: "PushManifest", Repo: "r", M: 3, Tag: "u"}},
		// index with mistyped entry tagged
		{{K: "PushBlob", Repo: "r", B: 1}, {K: "PushBlob", Repo: "r", B: 2}, {K: "PushManifest", Repo: "r", M: 1}, {K: "PushManifest", Repo: "r", M: 4, Tag: "t"}},
		// subject + referrer
		{{K: "PushBlob", Repo: "r", B: 1}, {K: "PushManifest", Repo: "r", M: 0, Tag: "t"}, {K: "PushManifest", Repo: "r", M: 2, Tag: "u"}},
		// half-done upload and content in both repositories
		{{K: "PushBlob", Repo: "r", B: 1}, {K: "PushBlob", Repo: "s", B: 2}, {K: "Start", Repo: "r"}, {K: "Write", H: 0, Piece: "a"}},
		// a tag moved once
		{{K: "PushManifest", Repo: "s", M: 0, Tag: "t"}, {K: "PushBlob", Repo: "s", B: 1}, {K: "PushBlob", Repo: "s", B: 2}, {K: "PushManifest", Repo: "s", M: 1, Tag: "t"}},
		// a committed chunked upload (its ID may be reused) next to other content
		{{K: "PushBlob", Repo: "r", B: 1}, {K: "Start", Repo: "r"}, {K: "Write", H: 0, Piece: "bc"}, {K: "Commit", H: 0}},
		{{K: "Start", Repo: "r"}, {K: "Write", H: 0, Piece: "a"}, {K: "Commit", H: 0}, {K: "Cancel", H: 0}},
		// an upload under a caller-chosen ID in one repository (the same ID may then be used in the other)
		{{K: "Start", Repo: "r", Off: "id", Piece: "xid"}, {K: "Write", H: 0, Piece: "a"}},
		// one digest held as a blob and as a manifest, met as a layer before it is met as a manifest
		{{K: "PushBlob", Repo: "r", B: 1}, {K: "PushBlob", Repo: "r", B: 2}, {K: "PushBlob", Repo: "r", B: 3}, {K: "PushManifest", Repo: "r", M: 1}, {K: "PushManifest", Repo: "r", M: 12}, {K: "PushManifest", Repo: "r", M: 13, Tag: "t"}},
		// same bytes under two media types
		{{K: "PushBlob", Repo: "r", B: 1}, {K: "PushBlob", Repo: "r", B: 2}, {K: "PushManifest", Repo: "r", M: 1, Tag: "t"}, {K: "PushManifest", Repo: "r", M: 8}},
	}
}

func c02Check(r *vcore.Run) vcore.Coverage {
	u := newUniverse().withDualRole()
	var states, trans int64
	var notes []map[string]any
	exhaustive := true
	var cfgOverride *alphabetConfig
	run := func(name string, immutable, chunked bool, depth int, seeds [][]Op, maxStates int64, deadline time.Duration) {
		cfg := c02Alphabet(u, r.Tier, chunked)
		if cfgOverride != nil {
			cfg = *cfgOverride
		}
		if !chunked {
			seeds2 := [][]Op{}
			for _, s := range seeds {
				ok := true
				for _, op := range s {
					if op.K == "Start" || op.K == "Write" {
						ok = false
					}
				}
				if ok {
					seeds2 = append(seeds2, s)
				}
			}
			seeds = seeds2
		}
		st := vstate.BFS(vstate.Spec[Op]{
			New:      func() vstate.System[Op] { return newMemSys(r, "C02", u, cfg, immutable) },
			MaxDepth: depth, MaxStates: maxStates, Deadline: deadline, Seeds: seeds,
		})
		states += st.States
		trans += st.Transitions
		if st.CapHit != "" {
			exhaustive = false
		}
		notes = append(notes, map[string]any{"run": name, "immutable_tags": immutable, "chunked_ops": chunked, "max_depth": depth, "completed_depth": st.Depth,
			"states": st.States, "transitions": st.Transitions, "fixpoint": st.Fixpoint, "cap_hit": st.CapHit, "per_depth_new_states": st.PerDepth, "seed_states": len(seeds)})
		for _, h := range st.Samples {
			r.Sample(name, opsText(h))
		}
	}
	if r.Thorough() {
		run("mutable/chunked", false, true, 4, c02Seeds(), 400000, 12*time.Minute)
		run("immutable/chunked", true, true, 4, c02Seeds(), 400000, 12*time.Minute)
	} else {
		d := 2
		if v := os.Getenv("C02_DEPTH"); v != "" {
			fmt.Sscan(v, &d)
		}
		run("mutable/chunked", false, true, d, c02Seeds(), 0, 0)
		run("immutable/chunked", true, true, d, c02Seeds(), 0, 0)
	}
	// small closed universe explored to fixpoint: every reachable state, any history length
	mini := alphabetConfig{Repos: []string{"r"}, Blobs: []int{1, 2}, Manifests: []int{0, 1, 3, 8}, Tags: []string{"t", "u"}, Deletes: true, UntaggedToo: true, ReadsOp: true}
	cfgOverride = &mini
	run("mutable/mini-fixpoint", false, false, 40, nil, 0, 10*time.Minute)
	run("immutable/mini-fixpoint", true, false, 40, nil, 0, 10*time.Minute)
	// content the image specification singles out: the "{}" blob and an artifact whose config and layer are
	// the empty descriptor are a blob and references like any other
	uw, bw, mw := newUniverse().withDualRole().withWellKnown()
	wk := alphabetConfig{Repos: []string{"r"}, Blobs: []int{1, bw}, Manifests: []int{0, mw}, Tags: []string{"t"}, Deletes: true, UntaggedToo: true}
	cfgOverride = &wk
	u = uw
	run("mutable/well-known-content-fixpoint", false, false, 40, nil, 0, 10*time.Minute)
	run("immutable/well-known-content-fixpoint", true, false, 40, nil, 0, 10*time.Minute)
	r.Notes["runs"] = notes
	r.Assume = []string{
		"universe: 2 repositories (+1 never used), 3 blobs, 9 manifests (opaque, image, image+subject, index, index with mistyped entry, malformed, missing reference, zero-size descriptor, same bytes under another media type), 2 tags, invalid name/tag, 1 upload session of <= 3 bytes",
		"three-valued predictions: where the statement is silent (zero-size descriptor with non-empty digest, resume/write/commit on a finished session, deletion of content reachable only via subject or descriptor media type) either answer is accepted and the model follows the implementation",
		"error codes are compared only where interface.go documents one; a content-free repository may answer unknown or empty",
	}
	return vcore.Coverage{States: states, Transitions: trans, TracesImpl: trans, Evaluations: trans, Nontrivial: states, Exhaustive: exhaustive,
		Rule: "breadth-first search over all operation histories (alphabet ~110 operations) from the empty registry and from seeded non-initial states, both configurations; a state is a canonical reflective dump of the real registry plus upload handles; every transition is a real call checked against the reference model and followed by a full read sweep (~260 queries); every explored trace is an implementation trace; non-trivial = distinct states"}
}

func c02Replay(r *vcore.Run, sub string, raw json.RawMessage) {
	var c c02Case
	if err := json.Unmarshal(raw, &c); err != nil {
		panic(err)
	}
	u, _, _ := newUniverse().withDualRole().withWellKnown() // superset of every universe the runs use
	s := newMemSys(r, "C02", u, c02Alphabet(u, "quick", true), c.Mode == "immutable-tags")
	for _, op := range c.History {
		if s.Apply(op, true) {
			return
		}
	}
}
