package props

import (
	"context"
	"encoding/json"
	"errors"
	"fmt"
	"sort"
	"strings"
	"time"

	"cuelabs.dev/go/oci/ociregistry"
	"cuelabs.dev/go/oci/ociregistry/ocifilter"
	"cuelabs.dev/go/oci/ociregistry/ocimem"

	"verif/vcore"
	"verif/vstate"
)

// C14: read-only / immutable / immutable-tags hold for every history.
// E2 history search with history monitors (first-observed tag binding is
// forever; nothing retrievable is lost; closure of tagged manifests stays
// retrievable; read-only backend never changes).

func init() {
	vcore.Register(&vcore.Prop{ID: "C14", Level: "model_checking", Engine: "E2-state", Check: c14Check, Replay: c14Replay})
}

// histMonitor remembers what has been observed along a history.
type histMonitor struct {
	tagFirst  map[string]string // repo/tag -> digest|bytes at first successful observation
	ever      map[string]string // kind/repo/digest -> bytes once retrievable
	neverLose bool              // Immutable wrapper: nothing ever retrievable may disappear
	closure   bool              // immutable-tags: closure of every tag stays retrievable
	// excused: repo/digest of manifests that another client removed from the underlying registry directly
	// (not through the wrapper): their bytes may be gone, but no tag may move because of it
	excused map[string]bool
}

func newHistMonitor(neverLose, closure bool) *histMonitor {
	return &histMonitor{tagFirst: map[string]string{}, ever: map[string]string{}, neverLose: neverLose, closure: closure, excused: map[string]bool{}}
}

func (m *histMonitor) key() string {
	var ks []string
	for k, v := range m.tagFirst {
		ks = append(ks, k+"="+v[:20])
	}
	for k := range m.ever {
		ks = append(ks, k[:len(k)-50])
	}
	for k := range m.excused {
		ks = append(ks, "excused:"+k[:len(k)-50])
	}
	sort.Strings(ks)
	return strings.Join(ks, ";")
}

// step observes the registry through reg after a transition.
func (m *histMonitor) step(s *regSys, op Op, check bool) (tainted bool) {
	ctx := s.ctx
	u := s.u
	repos := s.cfg.Repos
	viol := func(fp, exp, obs string) {
		if check {
			s.r.Violate(s.sub, fmt.Sprintf("%s/%s/%s/after-%s", s.prop, s.mode, fp, op.K), s.caseOf(nil), exp, obs)
			tainted = true
		}
	}
	for _, repo := range repos {
		for _, tag := range u.Tags {
			k := repo + "/" + tag
			for _, qk := range []string{"ResolveTag", "GetTag"} {
				o := runQuery(ctx, s.reg, Query{K: qk, Repo: repo, Tag: tag})
				first, seen := m.tagFirst[k]
				if !o.OK {
					if seen {
						fd, _, _ := strings.Cut(first, "|")
						if qk == "GetTag" && m.excused[repo+"/"+fd] {
							continue // the bytes were removed behind the wrapper's back; the tag itself must still resolve
						}
						viol("tag-no-longer-resolves/"+qk, "tag "+k+" resolves to "+first[:19]+" forever", fmt.Sprintf("%s failed: [%s] %s", qk, o.Code, o.Err))
					}
					continue
				}
				cur := string(o.Desc.Digest)
				if !seen {
					if qk == "GetTag" {
						m.tagFirst[k] = cur + "|" + string(o.Bytes)
					} else {
						// record the digest now; bytes are added by the GetTag observation
						m.tagFirst[k] = cur + "|\x00unknown"
					}
					continue
				}
				fd, fb, _ := strings.Cut(first, "|")
				if fd != cur {
					viol("tag-retargeted/"+qk, "tag "+k+" resolves to "+fd+" forever", "now "+cur)
				}
				if qk == "GetTag" {
					if fb == "\x00unknown" {
						m.tagFirst[k] = cur + "|" + string(o.Bytes)
					} else if fb != string(o.Bytes) {
						viol("tag-bytes-changed", "same bytes forever", fmt.Sprintf("%q then %q", fb, o.Bytes))
					}
					if sha256Digest(o.Bytes) != o.Desc.Digest {
						viol("tag-bytes-do-not-hash-to-digest", string(o.Desc.Digest), string(sha256Digest(o.Bytes)))
					}
				}
			}
		}
		if m.neverLose {
			for i, b := range u.Blobs {
				m.everCheck(s, repo, "GetBlob", string(sha256Digest(b)), fmt.Sprintf("b%d", i), viol)
			}
			for _, um := range u.Manifests {
				m.everCheck(s, repo, "GetManifest", string(sha256Digest(um.Data)), um.Name, viol)
			}
		}
		if m.closure {
			mr := s.model.repo(repo, false)
			if mr == nil {
				continue
			}
			// closure computed by the model from the stored bytes, each manifest by its own media type
			for d := range s.model.reach(mr, false) {
				isMan := mr.Mans[d] != nil
				ok := false
				if isMan {
					ok = runQuery(ctx, s.reg, Query{K: "GetManifest", Repo: repo, Dig: string(d)}).OK
				}
				if !ok {
					ok = runQuery(ctx, s.reg, Query{K: "GetBlob", Repo: repo, Dig: string(d)}).OK
				}
				if !ok && !isMan && mr.Blobs[d] == nil {
					// referenced content that was never present (dangling reference accepted at push time
					// is impossible for blobs; a manifest entry may only dangle via subject, which strict reach skips)
					continue
				}
				if !ok {
					viol("tagged-closure-not-retrievable", "everything reachable from a tag stays retrievable", repo+" "+string(d))
				}
			}
		}
	}
	return tainted
}

func (m *histMonitor) everCheck(s *regSys, repo, qk, dig, what string, viol func(fp, exp, obs string)) {
	if m.excused[repo+"/"+dig] {
		return
	}
	o := runQuery(s.ctx, s.reg, Query{K: qk, Repo: repo, Dig: dig, What: what})
	k := qk + "/" + repo + "/" + dig
	was, seen := m.ever[k]
	if o.OK {
		if !seen {
			m.ever[k] = string(o.Bytes)
		} else if was != string(o.Bytes) {
			viol("content-changed/"+qk, fmt.Sprintf("%q", was), fmt.Sprintf("%q", o.Bytes))
		}
		return
	}
	if seen {
		viol("retrievable-content-lost/"+qk, what+" in "+repo+" stays retrievable", fmt.Sprintf("[%s] %s", o.Code, o.Err))
	}
}

func c14Config(u *universe, chunked bool) alphabetConfig {
	return alphabetConfig{Repos: u.Repos, Chunked: chunked, MaxUploads: 1, MaxUpload: 2,
		Manifests: []int{0, 1, 2, 3, 4, 8}, Blobs: []int{1, 2}, Deletes: true, Mounts: true, UntaggedToo: true, ReadsOp: true}
}

// Immutable wrapper over a mutable ocimem.
func newImmutableWrapperSys(r *vcore.Run, u *universe, cfg alphabetConfig) *regSys {
	backend := ocimem.New()
	mon := newHistMonitor(true, false)
	s := &regSys{r: r, prop: "C14", mode: "Immutable-wrapper", sub: "immutable", u: u, cfg: cfg, static: u.staticOps(cfg),
		reg: ocifilter.Immutable(backend), raw: backend, noOracle: true,
		model: NewModel(false), ctx: context.Background()}
	s.extraKey = mon.key
	// another client of the underlying registry removes a manifest directly (the wrapper cannot prevent
	// that): whatever it leaves dangling, no tag observed through the wrapper may move
	for _, mi := range []int{0, 1} {
		s.static = append(s.static, Op{K: "BackdoorDeleteManifest", Repo: u.Repos[0], M: mi})
	}
	s.backdoor = backend
	s.onStep = func(s *regSys, op Op, out Outcome, check bool) bool {
		if op.K == "BackdoorDeleteManifest" && out.OK {
			mon.excused[op.Repo+"/"+string(sha256Digest(s.u.Manifests[op.M].Data))] = true
		}
		t := mon.step(s, op, check)
		if check && out.OK && (op.K == "DeleteBlob" || op.K == "DeleteManifest" || op.K == "DeleteTag") {
			s.r.Violate(s.sub, "C14/Immutable-wrapper/delete-succeeded/"+op.K, s.caseOf(nil), "nothing is ever deleted through the immutable wrapper", op.String()+" succeeded")
			t = true
		}
		return t
	}
	return s
}

// ocimem in immutable-tags mode: reference model + monitors.
func newImmutableTagsSys(r *vcore.Run, u *universe, cfg alphabetConfig) *regSys {
	s := newMemSys(r, "C14", u, cfg, true)
	s.sub = "immutable-tags"
	mon := newHistMonitor(false, true)
	s.extraKey = mon.key
	s.onStep = func(s *regSys, op Op, out Outcome, check bool) bool { return mon.step(s, op, check) }
	return s
}

// Read-only wrapper: in every reached backend state every mutating call must
// fail as unsupported and leave the backend dump unchanged; reads are equal.
func newReadOnlyProbeSys(r *vcore.Run, u *universe, cfg alphabetConfig) *regSys {
	s := newMemSys(r, "C14", u, cfg, false)
	s.sub = "readonly"
	s.mode = "ReadOnly-wrapper"
	probeOps := u.staticOps(alphabetConfig{Repos: u.Repos, BadRepo: true, Manifests: []int{0, 1, 3}, Blobs: []int{0, 1}, Deletes: true, Mounts: true, BadPushes: true, UntaggedToo: true})
	s.postCheck = func(s *regSys, op Op, out Outcome) {
		backend := s.raw.(*ocimem.Registry)
		ro := ocifilter.ReadOnly(backend)
		dump := func() string {
			d := vstate.NewDumper()
			d.Add("reg", backend)
			return d.String()
		}
		before := dump()
		// sequences of two mutating calls through the same wrapper value
		probe := &regSys{r: s.r, u: s.u, reg: ro, model: s.model, ctx: s.ctx}
		check := func(name string, err error, okResult bool) {
			if err == nil || okResult {
				s.r.Violate("readonly", "C14/ReadOnly-wrapper/mutating-call-succeeded/"+name, s.caseOf(nil), "fails as unsupported", name+" succeeded")
			} else if !errors.Is(err, ociregistry.ErrUnsupported) {
				s.r.Violate("readonly", "C14/ReadOnly-wrapper/not-unsupported/"+name, s.caseOf(nil), "errors.Is(err, ErrUnsupported)", err.Error())
			}
		}
		for _, p := range probeOps {
			p := p
			s.r.Guard("readonly", "C14/ReadOnly-wrapper/"+p.K, s.caseOf(nil), func() {
				var err error
				switch p.K {
				case "PushBlob", "PushManifest", "Mount", "DeleteBlob", "DeleteManifest", "DeleteTag":
					o := probe.exec(p)
					if o.OK {
						check(p.String(), nil, true)
					} else {
						err = errors.New(o.Err)
						if o.Code != "UNSUPPORTED" {
							check(p.String(), err, false)
						}
					}
				case "Start":
					_, err = ro.PushBlobChunked(s.ctx, p.Repo, 0)
					check(p.String(), err, false)
				}
			})
		}
		s.r.Guard("readonly", "C14/ReadOnly-wrapper/Resume", s.caseOf(nil), func() {
			_, err := ro.PushBlobChunkedResume(s.ctx, "r", "someid", 0, 0)
			check("PushBlobChunkedResume", err, false)
			_, err = ro.PushBlobChunked(s.ctx, "r", 0)
			check("PushBlobChunked", err, false)
		})
		if after := dump(); after != before {
			s.r.Violate("readonly", "C14/ReadOnly-wrapper/backend-changed", s.caseOf(nil), "backend unchanged by calls through the read-only wrapper", firstDiff(before, after))
		}
		// reads through the wrapper equal direct reads
		for _, q := range s.queries {
			a, b := runQuery(s.ctx, backend, q), runQuery(s.ctx, ro, q)
			if a.Text() != b.Text() {
				s.r.Violate("readonly", "C14/ReadOnly-wrapper/read-differs/"+q.K, s.caseOf(nil), a.Text(), b.Text())
			}
		}
		if after := dump(); after != before {
			s.r.Violate("readonly", "C14/ReadOnly-wrapper/backend-changed-by-reads", s.caseOf(nil), "backend unchanged", firstDiff(before, after))
		}
		// The sweeps above have already read every name directly. A registry in the same state that
		// nobody has read from yet (the history replayed, nothing else) must not be changed by reads
		// through the wrapper either - including reads of repositories that do not exist.
		twin := newMemSys(s.r, "C14", s.u, cfg, false)
		for _, h := range s.hist {
			twin.Apply(h, false)
		}
		tb := twin.raw.(*ocimem.Registry)
		dumpT := func() string {
			d := vstate.NewDumper()
			d.Add("reg", tb)
			return d.String()
		}
		b0 := dumpT()
		tro := ocifilter.ReadOnly(tb)
		for _, q := range s.queries {
			runQuery(s.ctx, tro, q)
		}
		if b1 := dumpT(); b1 != b0 {
			s.r.Violate("readonly", "C14/ReadOnly-wrapper/unread-backend-changed-by-reads", s.caseOf(nil), "a registry nobody has read from is unchanged by reads through the read-only wrapper", firstDiff(b0, b1))
		}
	}
	return s
}

func c14Seeds() [][]Op {
	return [][]Op{
		{{K: "PushBlob", Repo: "r", B: 1}, {K: "PushBlob", Repo: "r", B: 2}, {K: "PushManifest", Repo: "r", M: 1, Tag: "t"}, {K: "PushManifest", Repo: "r", M: 3, Tag: "u"}},
		{{K: "PushBlob", Repo: "r", B: 1}, {K: "PushBlob", Repo: "r", B: 2}, {K: "PushManifest", Repo: "r", M: 1}, {K: "PushManifest", Repo: "r", M: 4, Tag: "t"}},
		{{K: "PushBlob", Repo: "r", B: 1}, {K: "PushBlob", Repo: "r", B: 2}, {K: "PushManifest", Repo: "r", M: 1, Tag: "t"}, {K: "PushManifest", Repo: "r", M: 8}},
		{{K: "PushBlob", Repo: "s", B: 1}, {K: "PushManifest", Repo: "s", M: 0, Tag: "t"}, {K: "PushManifest", Repo: "s", M: 2, Tag: "u"}},
		// a tagged image and an untagged one that share a blob (the config): what happens to the untagged one
		// does not loosen the tagged one's hold on it
		{{K: "PushBlob", Repo: "r", B: 1}, {K: "PushBlob", Repo: "r", B: 2}, {K: "PushManifest", Repo: "r", M: 1, Tag: "t"}, {K: "PushManifest", Repo: "r", M: 2}},
	}
}

// c14Deep: universe, alphabet and seeded state of the deep-index run.
func c14Deep() (*universe, alphabetConfig, []Op) {
	ud := newUniverse().withDeepIndex(5)
	cfg := alphabetConfig{Repos: []string{"r"}, Blobs: []int{1, 2}, Manifests: []int{1, 3, 12, 13, 14, 15, 16}, Tags: []string{"t"}, Deletes: true, UntaggedToo: true}
	seed := []Op{{K: "PushBlob", Repo: "r", B: 1}, {K: "PushBlob", Repo: "r", B: 2}, {K: "PushManifest", Repo: "r", M: 1}, {K: "PushManifest", Repo: "r", M: 3}}
	for m := 12; m <= 15; m++ {
		seed = append(seed, Op{K: "PushManifest", Repo: "r", M: m})
	}
	seed = append(seed, Op{K: "PushManifest", Repo: "r", M: 16, Tag: "t"})
	return ud, cfg, seed
}

func c14Check(r *vcore.Run) vcore.Coverage {
	u := newUniverse()
	var states, trans int64
	exhaustive := true
	var notes []map[string]any
	run := func(name string, mk func() vstate.System[Op], depth int, seeds [][]Op, deadline time.Duration) {
		st := vstate.BFS(vstate.Spec[Op]{New: mk, MaxDepth: depth, Seeds: seeds, Deadline: deadline, MaxStates: 300000})
		states += st.States
		trans += st.Transitions
		if st.CapHit != "" {
			exhaustive = false
		}
		notes = append(notes, map[string]any{"run": name, "max_depth": depth, "completed_depth": st.Depth, "states": st.States, "transitions": st.Transitions,
			"fixpoint": st.Fixpoint, "cap_hit": st.CapHit, "per_depth_new_states": st.PerDepth})
		for _, h := range st.Samples {
			r.Sample(name, opsText(h))
		}
	}
	d1, d2 := 2, 1
	if r.Thorough() {
		d1, d2 = 3, 2
	}
	cfg := c14Config(u, true)
	cfgw := cfg
	cfgw.DoneCtx = true
	run("Immutable-wrapper", func() vstate.System[Op] { return newImmutableWrapperSys(r, u, cfgw) }, d1+1, c14Seeds(), 10*time.Minute)
	run("immutable-tags", func() vstate.System[Op] { return newImmutableTagsSys(r, u, cfg) }, d1, c14Seeds(), 10*time.Minute)
	run("ReadOnly-wrapper", func() vstate.System[Op] { return newReadOnlyProbeSys(r, u, c14Config(u, false)) }, d2, c14Seeds(), 10*time.Minute)
	// a tagged tree seven levels deep (tag -> five nested indexes -> index -> image -> blobs): protection
	// from deletion does not depend on how far below the tag something lies
	ud, cfgd, seedd := c14Deep()
	run("immutable-tags/deep-index", func() vstate.System[Op] {
		s := newImmutableTagsSys(r, ud, cfgd)
		s.sub = "immutable-tags-deep"
		return s
	}, d1, [][]Op{seedd}, 10*time.Minute)
	// content the image specification singles out (the "{}" blob behind the empty descriptor) is pinned by a
	// tagged artifact like any other blob; closed universe, explored to fixpoint from the empty registry
	uw, bw, mw := newUniverse().withWellKnown()
	cfgWK := alphabetConfig{Repos: []string{"r"}, Blobs: []int{1, bw}, Manifests: []int{0, mw}, Tags: []string{"t"}, Deletes: true, UntaggedToo: true}
	run("immutable-tags/well-known-content-fixpoint", func() vstate.System[Op] {
		s := newImmutableTagsSys(r, uw, cfgWK)
		s.sub = "immutable-tags-well-known"
		return s
	}, 40, nil, 10*time.Minute)
	// closed mini universes to fixpoint
	mini := alphabetConfig{Repos: []string{"r"}, Blobs: []int{1, 2}, Manifests: []int{0, 1, 3, 4, 8}, Tags: []string{"t"}, Deletes: true, UntaggedToo: true}
	run("Immutable-wrapper/mini-fixpoint", func() vstate.System[Op] { return newImmutableWrapperSys(r, u, mini) }, 40, nil, 10*time.Minute)
	run("immutable-tags/mini-fixpoint", func() vstate.System[Op] { return newImmutableTagsSys(r, u, mini) }, 40, nil, 10*time.Minute)
	// concurrent histories of immutable-tags mode: every schedule of small thread programs
	conc := c14Concurrent(r)
	states += conc.Execs
	trans += conc.Points
	exhaustive = exhaustive && conc.Complete
	r.Notes["concurrent_harnesses"] = conc.Notes
	r.Notes["concurrent_schedules"] = conc.Execs
	r.Notes["concurrent_schedules_with_preemption"] = conc.Preempted
	r.Notes["runs"] = notes
	r.Assume = []string{
		"monitors observe tags through ResolveTag and GetTag after every transition; 'observed' means observed by the harness sweep",
		"closure of a tag is computed by the reference model from the stored bytes, each manifest interpreted by its own media type; subjects are not part of the required closure",
		"concurrent histories of immutable-tags mode: <= 3 controlled threads of <= 2 operations over one tag-bearing repository; directed harnesses over all schedules, generated programs with <= 2 preemptions; oracle = linearizability against the reference model in immutable mode plus the final sweep",
	}
	return vcore.Coverage{States: states, Transitions: trans, TracesImpl: trans, Evaluations: trans, Nontrivial: states, Exhaustive: exhaustive,
		Rule: "BFS over operation histories through ocifilter.Immutable(ocimem), through ocimem in immutable-tags mode (with the reference model) and, for ReadOnly, probing every mutating call in every reached backend state; history monitors on every transition; closed mini-universes explored to fixpoint; concurrent part: 7 directed immutable-tags harnesses over all schedules + generated 2-thread programs (thorough: 3 threads) with <= 2 preemptions under the cooperative scheduler, each schedule checked for linearizability against the immutable-mode reference model; non-trivial = distinct states + schedules"}
}

func c14Replay(r *vcore.Run, sub string, raw json.RawMessage) {
	var c c02Case
	if err := json.Unmarshal(raw, &c); err != nil {
		return
	}
	u := newUniverse()
	var s *regSys
	if sub == "sched" {
		c08Replay(r, sub, raw)
		return
	}
	switch sub {
	case "immutable-tags-deep":
		ud, cfgd, _ := c14Deep()
		s = newImmutableTagsSys(r, ud, cfgd)
		s.sub = sub
	case "immutable-tags-well-known":
		uw, _, _ := newUniverse().withWellKnown()
		s = newImmutableTagsSys(r, uw, c14Config(uw, true))
		s.sub = sub
	case "immutable":
		s = newImmutableWrapperSys(r, u, c14Config(u, true))
	case "readonly":
		s = newReadOnlyProbeSys(r, u, c14Config(u, false))
	default:
		s = newImmutableTagsSys(r, u, c14Config(u, true))
	}
	for _, op := range c.History {
		if s.Apply(op, true) {
			return
		}
	}
}
