package props

import (
	"bytes"
	"context"
	"encoding/json"
	"fmt"

	"cuelabs.dev/go/oci/ociregistry"
	"cuelabs.dev/go/oci/ociregistry/ocimem"

	"verif/vcore"
	"verif/vstate"
)

// C13 equivalence: histories through Sub(ocimem, prefix) are checked against
// the plain reference registry model (= "the underlying registry restricted
// to the prefix, with the prefix removed"), and the sibling repositories of
// the backend must stay exactly as they were.

type c13EquivStats struct{ states, transitions int64 }

var c13Siblings = []string{"foo", "fooey/x", "other", "foo-x/r"}

func c13Backend(prefix string) *ocimem.Registry {
	reg := ocimem.New()
	ctx := context.Background()
	for _, n := range c13Siblings {
		if n == prefix {
			continue
		}
		data := []byte("sibling " + n)
		if _, err := reg.PushBlob(ctx, n, descOf(mtOctet, data), bytes.NewReader(data)); err != nil {
			panic(err)
		}
		if _, err := reg.PushBlob(ctx, n, descOf(mtOctet, []byte("x")), bytes.NewReader([]byte("x"))); err != nil {
			panic(err)
		}
		if _, err := reg.PushManifest(ctx, n, "t", []byte(`{"sib":1}`), mtOpaque); err != nil {
			panic(err)
		}
	}
	return reg
}

func c13SiblingText(reg ociregistry.Interface, u *universe, prefix string) string {
	var names []string
	for _, n := range c13Siblings {
		if n != prefix {
			names = append(names, n)
		}
	}
	var obs []Obs
	ctx := context.Background()
	for _, q := range sweepQueries(u, names) {
		if q.K == "Repositories" || q.K == "GetBlobRange" {
			continue
		}
		obs = append(obs, runQuery(ctx, reg, q))
	}
	for _, n := range names {
		d := string(sha256Digest([]byte("sibling " + n)))
		obs = append(obs, runQuery(ctx, reg, Query{K: "GetBlob", Repo: n, Dig: d, What: "sib"}))
	}
	return sweepText(obs)
}

func newSubSys(r *vcore.Run, u *universe, cfg alphabetConfig, prefix string) *regSys {
	raw := prefix
	prefix = c13Eff(prefix)
	backend := c13Backend(prefix)
	before := c13SiblingText(backend, u, prefix)
	s := &regSys{r: r, prop: "C13", mode: "sub-" + prefix, u: u, cfg: cfg, static: u.staticOps(cfg),
		reg: c13Sub(backend, raw), raw: backend,
		model: NewModel(false), queries: sweepQueries(u, append(append([]string(nil), u.Repos...), "q")), ctx: context.Background()}
	s.postCheck = func(s *regSys, op Op, out Outcome) {
		if after := c13SiblingText(backend, u, prefix); after != before {
			s.r.Violate("equiv", fmt.Sprintf("C13/sub-%s/%s/sibling-repository-changed/name-%s", prefix, op.K, nameClass(op.Repo)), s.caseOf(nil),
				"repositories outside the prefix unchanged", firstDiff(before, after))
		}
	}
	return s
}

func firstDiff(a, b string) string {
	la, lb := bytes.Split([]byte(a), []byte("\n")), bytes.Split([]byte(b), []byte("\n"))
	for i := 0; i < len(la) && i < len(lb); i++ {
		if !bytes.Equal(la[i], lb[i]) {
			return fmt.Sprintf("was: %s\nnow: %s", la[i], lb[i])
		}
	}
	return "length differs"
}

func c13EquivConfig(u *universe) alphabetConfig {
	return alphabetConfig{Repos: u.Repos, BadRepo: true, Chunked: true, MaxUploads: 1, MaxUpload: 2,
		Manifests: []int{0, 1, 2}, Blobs: []int{1, 2}, Deletes: true, Mounts: true, UntaggedToo: false, Tags: []string{"t"}, ReadsOp: true,
		BadNames: []string{"../other", "..", ".", "r/../../other", "../foo-x/r", "r/", "r//x", "/r", "../fooey/x"}}
}

func c13Equiv(r *vcore.Run) c13EquivStats {
	u := newUniverse()
	var st c13EquivStats
	depth := 2
	if r.Thorough() {
		depth = 3
	}
	var notes []map[string]any
	for _, prefix := range c13Prefixes {
		prefix := prefix
		cfg := c13EquivConfig(u)
		res := vstate.BFS(vstate.Spec[Op]{
			New:      func() vstate.System[Op] { return newSubSys(r, u, cfg, prefix) },
			MaxDepth: depth,
			Seeds: [][]Op{
				{{K: "PushBlob", Repo: "r", B: 1}, {K: "PushBlob", Repo: "r", B: 2}, {K: "PushManifest", Repo: "r", M: 1, Tag: "t"}},
				{{K: "PushBlob", Repo: "s", B: 1}, {K: "Start", Repo: "r"}, {K: "Write", H: 0, Piece: "a"}},
			},
		})
		st.states += res.States
		st.transitions += res.Transitions
		notes = append(notes, map[string]any{"prefix": prefix, "states": res.States, "transitions": res.Transitions, "completed_depth": res.Depth, "per_depth_new_states": res.PerDepth})
		for _, h := range res.Samples {
			r.Sample("equiv-history-"+prefix, opsText(h))
		}
	}
	r.Notes["equivalence_runs"] = notes
	return st
}

func c13EquivReplay(r *vcore.Run, raw json.RawMessage) {
	var c c02Case
	if err := json.Unmarshal(raw, &c); err != nil {
		return
	}
	u := newUniverse()
	prefix := "foo"
	if len(c.Mode) > 4 {
		prefix = c.Mode[4:]
	}
	s := newSubSys(r, u, c13EquivConfig(u), prefix)
	for _, op := range c.History {
		if s.Apply(op, true) {
			return
		}
	}
}
