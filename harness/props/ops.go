package props

import (
	"bytes"
	"context"
	"errors"
	"fmt"
	"io"
	"strings"

	"cuelabs.dev/go/oci/ociregistry"
)

// Generic invocation of the 18 Interface methods, used by the wrapper and
// differential checks. Results are summarised into comparable text.

var allMethods = []string{
	"GetBlob", "GetBlobRange", "GetManifest", "GetTag",
	"ResolveBlob", "ResolveManifest", "ResolveTag",
	"PushBlob", "PushBlobChunked", "PushBlobChunkedResume", "MountBlob", "PushManifest",
	"DeleteBlob", "DeleteManifest", "DeleteTag",
	"Repositories", "Tags", "Referrers",
}

// methodKind classifies a method: "read", "write", "delete", "list".
func methodKind(m string) string {
	switch m {
	case "GetBlob", "GetBlobRange", "GetManifest", "GetTag", "ResolveBlob", "ResolveManifest", "ResolveTag":
		return "read"
	case "PushBlob", "PushBlobChunked", "PushBlobChunkedResume", "MountBlob", "PushManifest":
		return "write"
	case "DeleteBlob", "DeleteManifest", "DeleteTag":
		return "delete"
	}
	return "list"
}

type opArgs struct {
	Repo         string             `json:"repo"`
	From         string             `json:"from,omitempty"`
	Tag          string             `json:"tag,omitempty"`
	ID           string             `json:"id,omitempty"`
	StartAfter   string             `json:"start_after,omitempty"`
	ArtifactType string             `json:"artifact_type,omitempty"`
	MediaType    string             `json:"media_type,omitempty"`
	Digest       ociregistry.Digest `json:"digest,omitempty"`
	O0           int64              `json:"o0,omitempty"`
	O1           int64              `json:"o1,omitempty"`
	Chunk        int                `json:"chunk,omitempty"`
	DescDigest   ociregistry.Digest `json:"desc_digest,omitempty"`
	DescSize     int64              `json:"desc_size,omitempty"`
	Data         []byte             `json:"data,omitempty"`
	StopAfter    int                `json:"stop_after,omitempty"` // listings: consumer declines after this many items (0 = never)
}

type opResult struct {
	Err  error
	Out  string // comparable summary of the successful part
	W    ociregistry.BlobWriter
	Post string // protocol problems observed while consuming (e.g. calls after stop)
}

func errCodeOf(err error) string {
	if err == nil {
		return ""
	}
	var e ociregistry.Error
	if errors.As(err, &e) {
		return e.Code()
	}
	return "(no code)"
}

func descText(d ociregistry.Descriptor) string {
	return fmt.Sprintf("%s|%s|%d", d.MediaType, d.Digest, d.Size)
}

func consumeReader(r ociregistry.BlobReader) (string, error) {
	desc := r.Descriptor()
	data, err := io.ReadAll(r)
	cerr := r.Close()
	s := fmt.Sprintf("desc=%s bytes=%q", descText(desc), data)
	if err != nil {
		return s + " readerr", err
	}
	if cerr != nil {
		s += " closeerr"
	}
	return s, nil
}

// consumeSeq drains an iterator, honouring stopAfter, and reports protocol
// breaches: items delivered after the consumer declined or after an error.
func consumeSeq[T any](seq ociregistry.Seq[T], stopAfter int, show func(T) string) (items []string, err error, post string) {
	if seq == nil {
		return nil, errors.New("nil iterator"), "nil-iterator"
	}
	stopped := false
	n := 0
	seq(func(x T, e error) bool {
		if stopped {
			post = "consumer called after it declined or after an error"
			return false
		}
		if e != nil {
			err = e
			stopped = true
			return false
		}
		items = append(items, show(x))
		n++
		if stopAfter > 0 && n >= stopAfter {
			stopped = true
			return false
		}
		return true
	})
	return
}

func callMethod(ctx context.Context, reg ociregistry.Interface, m string, a opArgs) (res opResult) {
	switch m {
	case "GetBlob":
		r, err := reg.GetBlob(ctx, a.Repo, a.Digest)
		return readerResult(r, err)
	case "GetBlobRange":
		r, err := reg.GetBlobRange(ctx, a.Repo, a.Digest, a.O0, a.O1)
		return readerResult(r, err)
	case "GetManifest":
		r, err := reg.GetManifest(ctx, a.Repo, a.Digest)
		return readerResult(r, err)
	case "GetTag":
		r, err := reg.GetTag(ctx, a.Repo, a.Tag)
		return readerResult(r, err)
	case "ResolveBlob":
		d, err := reg.ResolveBlob(ctx, a.Repo, a.Digest)
		return opResult{Err: err, Out: descText(d)}
	case "ResolveManifest":
		d, err := reg.ResolveManifest(ctx, a.Repo, a.Digest)
		return opResult{Err: err, Out: descText(d)}
	case "ResolveTag":
		d, err := reg.ResolveTag(ctx, a.Repo, a.Tag)
		return opResult{Err: err, Out: descText(d)}
	case "PushBlob":
		d, err := reg.PushBlob(ctx, a.Repo, ociregistry.Descriptor{Digest: a.DescDigest, Size: a.DescSize, MediaType: a.MediaType}, bytes.NewReader(a.Data))
		return opResult{Err: err, Out: descText(d)}
	case "PushBlobChunked":
		w, err := reg.PushBlobChunked(ctx, a.Repo, a.Chunk)
		return writerResult(w, err)
	case "PushBlobChunkedResume":
		w, err := reg.PushBlobChunkedResume(ctx, a.Repo, a.ID, a.O0, a.Chunk)
		return writerResult(w, err)
	case "MountBlob":
		d, err := reg.MountBlob(ctx, a.From, a.Repo, a.Digest)
		return opResult{Err: err, Out: descText(d)}
	case "PushManifest":
		d, err := reg.PushManifest(ctx, a.Repo, a.Tag, a.Data, a.MediaType)
		return opResult{Err: err, Out: descText(d)}
	case "DeleteBlob":
		return opResult{Err: reg.DeleteBlob(ctx, a.Repo, a.Digest)}
	case "DeleteManifest":
		return opResult{Err: reg.DeleteManifest(ctx, a.Repo, a.Digest)}
	case "DeleteTag":
		return opResult{Err: reg.DeleteTag(ctx, a.Repo, a.Tag)}
	case "Repositories":
		items, err, post := consumeSeq(reg.Repositories(ctx, a.StartAfter), a.StopAfter, func(s string) string { return s })
		return opResult{Err: err, Out: strings.Join(items, ","), Post: post}
	case "Tags":
		items, err, post := consumeSeq(reg.Tags(ctx, a.Repo, a.StartAfter), a.StopAfter, func(s string) string { return s })
		return opResult{Err: err, Out: strings.Join(items, ","), Post: post}
	case "Referrers":
		items, err, post := consumeSeq(reg.Referrers(ctx, a.Repo, a.Digest, a.ArtifactType), a.StopAfter, descText)
		return opResult{Err: err, Out: strings.Join(items, ","), Post: post}
	}
	panic("unknown method " + m)
}

func readerResult(r ociregistry.BlobReader, err error) opResult {
	if err != nil {
		if r != nil {
			return opResult{Err: err, Post: "non-nil reader alongside an error"}
		}
		return opResult{Err: err}
	}
	if r == nil {
		return opResult{Err: errors.New("nil reader without error"), Post: "nil reader without error"}
	}
	s, rerr := consumeReader(r)
	return opResult{Out: s, Err: rerr}
}

func writerResult(w ociregistry.BlobWriter, err error) opResult {
	if err != nil {
		return opResult{Err: err}
	}
	if w == nil {
		return opResult{Err: errors.New("nil writer without error"), Post: "nil writer without error"}
	}
	return opResult{W: w, Out: fmt.Sprintf("writer id=%q size=%d chunk=%d", w.ID(), w.Size(), w.ChunkSize())}
}

func (r opResult) text() string {
	if r.Err != nil {
		return fmt.Sprintf("%s ERR[%s] %v", r.Out, errCodeOf(r.Err), r.Err)
	}
	return r.Out
}
