package props

import (
	"bytes"
	"context"
	"encoding/json"
	"fmt"
	"io"
	"net/http"
	"strings"
	"sync/atomic"
	"time"

	"cuelabs.dev/go/oci/ociregistry"
	"cuelabs.dev/go/oci/ociregistry/ociclient"
	"cuelabs.dev/go/oci/ociregistry/ocimem"
	"cuelabs.dev/go/oci/ociregistry/ociserver"

	"verif/vcore"
)

// C18: the HTTP client survives any server response. E3: for every client
// operation the genuine response sequence (real ociserver over a seeded
// ocimem) is deviated in up to two places from a finite menu; every script
// runs to completion. Oracle: no panic, termination within a request budget
// and without hanging.

func init() {
	vcore.Register(&vcore.Prop{ID: "C18", Level: "fault_enumeration", Engine: "E3-env", Check: c18Check, Replay: c18Replay})
}

type c18Dev struct {
	At     int    `json:"response_index"`
	Aspect string `json:"aspect"` // status, header:<name>, body, ctype
	Value  string `json:"value"`
	// Sticky: the server keeps answering this way from that response on (a stuck or misconfigured
	// server), instead of deviating once
	Sticky bool `json:"from_then_on,omitempty"`
}

type c18Script struct {
	Op       string   `json:"operation"`
	PageSize int      `json:"list_page_size"`
	Devs     []c18Dev `json:"deviations"`
}

var c18Big = func() []byte {
	b := []byte(`{"pad":"`)
	for len(b) < 131075 {
		b = append(b, 'p')
	}
	return append(b, `"}`...)
}()

func c18Backend() *ocimem.Registry {
	m := ocimem.New()
	ctx := context.Background()
	must := func(_ ociregistry.Descriptor, err error) {
		if err != nil {
			panic(err)
		}
	}
	must(m.PushBlob(ctx, "r", descOf(mtOctet, []byte("hello")), bytes.NewReader([]byte("hello"))))
	must(m.PushBlob(ctx, "s", descOf(mtOctet, []byte("hello")), bytes.NewReader([]byte("hello"))))
	must(m.PushManifest(ctx, "r", "t", []byte(`{"o":1}`), mtOpaque))
	must(m.PushManifest(ctx, "r", "u", []byte(`{"o":2}`), mtOpaque))
	must(m.PushManifest(ctx, "r", "v", []byte(`{"o":3}`), mtOpaque))
	must(m.PushManifest(ctx, "r", "big", c18Big, mtOpaque))
	return m
}

var c18Ops = []string{
	"GetBlob", "GetBlobRange", "GetBlobRangeOpen", "GetManifest", "GetTag", "GetTagBig", "ResolveBlob", "ResolveManifest", "ResolveTag",
	"PushBlob", "PushBlobChunked", "PushBlobChunkedSmall", "ResumeMinus1", "ResumeExplicit", "MountBlob", "PushManifest",
	"DeleteBlob", "DeleteManifest", "DeleteTag", "Repositories", "Tags", "Referrers",
}

// c18Exec runs one client operation to completion, consuming whatever it returns.
func c18Exec(reg ociregistry.Interface, op string) {
	ctx := context.Background()
	helloDig := sha256Digest([]byte("hello"))
	moDig := sha256Digest([]byte(`{"o":1}`))
	drain := func(r ociregistry.BlobReader, err error) {
		if err != nil || r == nil {
			return
		}
		r.Descriptor()
		io.Copy(io.Discard, io.LimitReader(r, 1<<20))
		r.Close()
	}
	n := 0
	strs := func(s string, err error) bool { n++; return n < 5000 && err == nil }
	descs := func(d ociregistry.Descriptor, err error) bool { n++; return n < 5000 && err == nil }
	writer := func(w ociregistry.BlobWriter, err error, data ...string) {
		if err != nil || w == nil {
			return
		}
		w.ID()
		w.ChunkSize()
		for _, d := range data {
			if _, err := w.Write([]byte(d)); err != nil {
				break
			}
			w.Size()
		}
		w.Close()
		w.ID()
		all := strings.Join(data, "")
		w.Commit(sha256Digest([]byte(all)))
		w.Cancel()
	}
	switch op {
	case "GetBlob":
		drain(reg.GetBlob(ctx, "r", helloDig))
	case "GetBlobRange":
		drain(reg.GetBlobRange(ctx, "r", helloDig, 1, 3))
	case "GetBlobRangeOpen":
		drain(reg.GetBlobRange(ctx, "r", helloDig, 2, -1))
	case "GetManifest":
		drain(reg.GetManifest(ctx, "r", moDig))
	case "GetTag":
		drain(reg.GetTag(ctx, "r", "t"))
	case "GetTagBig":
		drain(reg.GetTag(ctx, "r", "big"))
	case "ResolveBlob":
		reg.ResolveBlob(ctx, "r", helloDig)
	case "ResolveManifest":
		reg.ResolveManifest(ctx, "r", moDig)
	case "ResolveTag":
		reg.ResolveTag(ctx, "r", "t")
	case "PushBlob":
		reg.PushBlob(ctx, "r", descOf(mtOctet, []byte("world")), bytes.NewReader([]byte("world")))
	case "PushBlobChunked":
		w, err := reg.PushBlobChunked(ctx, "r", 0)
		writer(w, err, "wor", "ld")
	case "PushBlobChunkedSmall":
		w, err := reg.PushBlobChunked(ctx, "r", 2)
		writer(w, err, "wor", "l", "d!")
	case "ResumeMinus1", "ResumeExplicit":
		w, err := reg.PushBlobChunked(ctx, "r", 1)
		if err != nil || w == nil {
			return
		}
		w.Write([]byte("wo"))
		w.Close()
		id := w.ID()
		off := int64(-1)
		if op == "ResumeExplicit" {
			off = w.Size()
		}
		w2, err := reg.PushBlobChunkedResume(ctx, "r", id, off, 1)
		writer(w2, err, "rld")
	case "MountBlob":
		reg.MountBlob(ctx, "s", "r2", helloDig)
	case "PushManifest":
		reg.PushManifest(ctx, "r", "w", []byte(`{"o":9}`), mtOpaque)
	case "DeleteBlob":
		reg.DeleteBlob(ctx, "r", helloDig)
	case "DeleteManifest":
		reg.DeleteManifest(ctx, "r", moDig)
	case "DeleteTag":
		reg.DeleteTag(ctx, "r", "t")
	case "Repositories":
		reg.Repositories(ctx, "")(strs)
	case "Tags":
		reg.Tags(ctx, "r", "")(strs)
	case "Referrers":
		reg.Referrers(ctx, "r", moDig, "")(descs)
	}
}

func c18Menu() []c18Dev {
	var m []c18Dev
	for _, st := range []string{"200", "201", "202", "204", "206", "301", "400", "401", "404", "416", "500"} {
		m = append(m, c18Dev{Aspect: "status", Value: st})
	}
	hvals := map[string][]string{
		"Location": {"<absent>", "", "::garbage::%zz", "http://[::1", "/v2/r/blobs/uploads/!!!", "//other.example/x?y", strings.Repeat("/a", 3000)},
		"Range":    {"<absent>", "", "garbage", "0-99999999999999999999", "-1-5", "5-1", "0-", "1-0"},
		"Content-Range": {"<absent>", "", "garbage", "bytes 0-1/", "bytes 0-1/-5", "bytes 0-1/99999999999999999999", "bytes 3-1/2", "/",
			// prefixes and fragments of the grammar: every place a parser may cut
			"bytes", "bytes ", "bytes/", "bytes/11", "bytes /5", "bytes 0", "bytes 0-", "bytes -1/5", "bytes 0-1", "bytes */5", "0-1/5", "bytes  0-1/5", "BYTES 0-1/5"},
		"Content-Length":        {"<absent>", "0", "1", "99999"},
		"Docker-Content-Digest": {"<absent>", "", "garbage", "sha256:xyz", "sha256:", ":", "sha512:" + strings.Repeat("a", 128), "md5:abc"},
		"Link": {"<absent>", "", "garbage", "<", "<>", "</v2/_catalog?n=1&last=a>; rel=\"next\"", "<http://[::1>; rel=next", "<%zz>",
			// link parameters in odd shapes: cut after the opening quote, quoted value starting with a comma, several
			// link-values, parameters without a value, a next link that is not the first
			"</v2/_catalog?n=1&last=a>; rel=\"", "</v2/_catalog?n=1&last=a>; rel=\",next\"", "</v2/_catalog?n=1&last=a>; rel=\"\"", "</v2/_catalog?n=1&last=a>; rel",
			"</v2/x>; rel=\"prev\", </v2/_catalog?n=1&last=a>; rel=\"next\"", "</v2/_catalog?n=1&last=a>; title=\"a,b;c\"; rel=next", "</v2/_catalog?n=1&last=a>;;; rel=next;"},
		"OCI-Chunk-Min-Length": {"<absent>", "", "garbage", "0", "-5", "99999999999999999999", "1"},
	}
	for _, h := range []string{"Location", "Range", "Content-Range", "Content-Length", "Docker-Content-Digest", "Link", "OCI-Chunk-Min-Length"} {
		for _, v := range hvals[h] {
			m = append(m, c18Dev{Aspect: "header:" + h, Value: v})
		}
	}
	for _, v := range []string{"<absent>", "", "garbage", "application/json; charset=utf-8", "text/html", "application/a+b+json", "application/vnd.acme+error+json", "application/json+x+y", ";;;", "application/+"} {
		m = append(m, c18Dev{Aspect: "ctype", Value: v})
	}
	for _, v := range []string{"", "{}", "null", "[]", `{"repositories":"x"}`, `{"repositories":[1,2]}`, `{"tags":{"a":1}}`, `{"tags":null,"name":5}`, `{"manifests":"x"}`,
		`{"errors":5}`, `{"errors":[]}`, `{"errors":[{}]}`, `{"errors":[{"code":5}]}`, `{"errors":[{"code":"DENIED","message":"m","detail":{"a":1}}]}`, `{"repositories":["a","b"`, "<9k>", "<9k-json>"} {
		m = append(m, c18Dev{Aspect: "body", Value: v})
	}
	return m
}

func c18ApplyDev(d c18Dev, status *int, header http.Header, body *[]byte) (unknownLen bool) {
	switch {
	case d.Aspect == "status":
		fmt.Sscan(d.Value, status)
	case strings.HasPrefix(d.Aspect, "header:"):
		name := strings.TrimPrefix(d.Aspect, "header:")
		if d.Value == "<absent>" {
			header.Del(name)
			return name == "Content-Length"
		}
		header.Set(name, d.Value)
	case d.Aspect == "ctype":
		if d.Value == "<absent>" {
			header.Del("Content-Type")
		} else {
			header.Set("Content-Type", d.Value)
		}
	case d.Aspect == "body":
		switch d.Value {
		case "<9k>":
			*body = bytes.Repeat([]byte("x"), 9*1024)
		case "<9k-json>":
			*body = []byte(`{"errors":[{"code":"DENIED","message":"` + strings.Repeat("m", 9*1024) + `"}]}`)
		default:
			*body = []byte(d.Value)
		}
		header.Set("Content-Length", fmt.Sprint(len(*body)))
	}
	return false
}

const c18Budget = 64

var c18Abort int32

// c18Run executes one script under a hang watchdog.
func c18Run(r *vcore.Run, sc c18Script) (requests int) {
	if atomic.LoadInt32(&c18Abort) != 0 {
		return 0
	}
	mem := c18Backend()
	sopts := &ociserver.Options{}
	if sc.Op == "GetTagBig" {
		sopts.OmitDigestFromTagGetResponse = true
	}
	client, tr := httpStack(mem, sopts, &ociclient.Options{ListPageSize: sc.PageSize})
	tr.MaxRequests = c18Budget
	idx := 0
	tr.Mangle = func(req *http.Request, status *int, header http.Header, body *[]byte) bool {
		unknown := false
		for _, d := range sc.Devs {
			if d.At == idx || (d.Sticky && idx > d.At) {
				if c18ApplyDev(d, status, header, body) {
					unknown = true
				}
			}
		}
		idx++
		return unknown
	}
	fp := "C18/" + sc.Op
	if sc.PageSize < 0 {
		fp += "/negative-page-size"
	}
	done := make(chan struct{})
	go func() {
		defer close(done)
		r.Guard("script", fp, sc, func() { c18Exec(client, sc.Op) })
	}()
	select {
	case <-done:
	case <-time.After(30 * time.Second):
		atomic.StoreInt32(&c18Abort, 1)
		r.Violate("script", fp+"/hang/"+c18Aspects(sc), sc, "the operation returns", "no return within 30 s after a finite response sequence (the goroutine is abandoned; remaining scripts are skipped)")
		return tr.Requests
	}
	if tr.Exceeded {
		r.Violate("script", fp+"/no-progress/"+c18Aspects(sc), sc, fmt.Sprintf("at most %d requests", c18Budget), fmt.Sprintf("%d requests and still going", tr.Requests))
	}
	r.Outcome(fmt.Sprintf("%s:%d-requests", sc.Op, tr.Requests))
	return tr.Requests
}

func c18Aspects(sc c18Script) string {
	var parts []string
	for _, d := range sc.Devs {
		parts = append(parts, d.Aspect)
	}
	return strings.Join(parts, "+")
}

func c18DevClass(sc c18Script) string {
	var parts []string
	for _, d := range sc.Devs {
		v := d.Value
		if len(v) > 24 {
			v = v[:24] + "…"
		}
		at := fmt.Sprint(d.At)
		if d.Sticky {
			at += "-onwards"
		}
		parts = append(parts, fmt.Sprintf("%s=%s@%s", d.Aspect, v, at))
	}
	s := strings.Join(parts, "+")
	if sc.PageSize != 0 {
		s += fmt.Sprintf("/page=%d", sc.PageSize)
	}
	if s == "" {
		return "genuine"
	}
	return s
}

func c18Scripts(thorough bool) []c18Script {
	menu := c18Menu()
	var out []c18Script
	for _, op := range c18Ops {
		pages := []int{0}
		if op == "Repositories" || op == "Tags" || op == "Referrers" {
			pages = []int{-1, 0, 1, 2}
		}
		for _, ps := range pages {
			// number of responses of the genuine run
			nresp := c18Run(vcore.NewRun("C18", "quick", "fault_enumeration", "probe"), c18Script{Op: op, PageSize: ps})
			if nresp > 6 {
				nresp = 6
			}
			out = append(out, c18Script{Op: op, PageSize: ps})
			for i := 0; i < nresp; i++ {
				for _, d := range menu {
					d1 := d
					d1.At = i
					out = append(out, c18Script{Op: op, PageSize: ps, Devs: []c18Dev{d1}})
					// from that response onwards: only answers that do not themselves announce more to come (a
					// server that keeps sending a Link is a server with an endless listing, not a client that
					// fails to stop)
					if (i < nresp-1 || nresp == 6) && !(d.Aspect == "header:Link" && d.Value != "<absent>") {
						ds := d1
						ds.Sticky = true
						out = append(out, c18Script{Op: op, PageSize: ps, Devs: []c18Dev{ds}})
						if len(pages) > 1 && d.Aspect == "body" {
							// a server without Link headers that keeps sending this body
							out = append(out, c18Script{Op: op, PageSize: ps, Devs: []c18Dev{ds, {At: i, Aspect: "header:Link", Value: "<absent>", Sticky: true}}})
						}
					}
					for j := i; j < nresp+1; j++ {
						for k, e := range menu {
							if j == i && e.Aspect == d.Aspect {
								continue
							}
							// quick: second deviation only from a reduced menu; thorough: the full product
							if !thorough && (k%5 != 0 || (d.Aspect != "status" && e.Aspect != "status")) {
								continue
							}
							e1 := e
							e1.At = j
							out = append(out, c18Script{Op: op, PageSize: ps, Devs: []c18Dev{d1, e1}})
						}
					}
				}
			}
		}
	}
	return out
}

func c18Check(r *vcore.Run) vcore.Coverage {
	atomic.StoreInt32(&c18Abort, 0)
	scripts := c18Scripts(r.Thorough())
	var reqs int64
	var two int64
	vcore.ParallelN(len(scripts), func(i int) {
		atomic.AddInt64(&reqs, int64(c18Run(r, scripts[i])))
		if len(scripts[i].Devs) == 2 {
			atomic.AddInt64(&two, 1)
		}
	})
	r.Sample("script-1-deviation", scripts[len(scripts)/7])
	r.Sample("script-2-deviations", scripts[len(scripts)/2])
	r.Notes["requests_served"] = reqs
	r.Notes["aborted_after_hang"] = atomic.LoadInt32(&c18Abort) != 0
	r.Assume = []string{
		"default answers are the genuine ones of the real ociserver over a seeded ocimem; a deviation replaces one aspect (status, one header, content type, body) of one response",
		"a script hangs if it has not returned 30 s after its (microsecond-scale) finite response sequence; the request budget (64) bounds progress, not time",
		"list consumers decline after 20 items",
	}
	return vcore.Coverage{Evaluations: int64(len(scripts)), Nontrivial: two, Exhaustive: atomic.LoadInt32(&c18Abort) == 0,
		Rule: fmt.Sprintf("%d client operations (every request kind; paging with ListPageSize -1,0,1,2; large-manifest tag read; chunked upload with tiny chunks; both resume modes) x deviation menu of %d entries (11 statuses; Location, Range, Content-Range, Content-Length, Docker-Content-Digest, Link, OCI-Chunk-Min-Length each absent/empty/garbage/huge/negative/contradictory; 10 content types; 17 bodies incl. wrong JSON types, truncated, 9 KiB) at every response position, all single deviations (once, and from that response onwards) and pairs (quick: pairs involving a status and a reduced second menu; thorough: full product); non-trivial = scripts with two deviations", len(c18Ops), len(c18Menu()))}
}

func c18Replay(r *vcore.Run, sub string, raw json.RawMessage) {
	var sc c18Script
	if json.Unmarshal(raw, &sc) == nil {
		c18Run(r, sc)
	}
}
