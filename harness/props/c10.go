package props

import (
	"context"
	"encoding/json"
	"fmt"
	"io"
	"net/http"
	"net/url"
	"strings"
	"sync"
	"time"

	"cuelabs.dev/go/oci/ociregistry/ociauth"

	"verif/vcore"
	"verif/vsched"
	"verif/vstate"
	"verif/vsync"
)

// C10: the auth transport only uses tokens that are sufficient, fresh and
// its own. E2: BFS over event histories (requests with required/desired
// scopes, clock ticks) against fake registries and token servers, with a
// monitor on every forwarded request.

func init() {
	vcore.Register(&vcore.Prop{ID: "C10", Level: "model_checking", Engine: "E2-state", Check: c10Check, Replay: c10Replay})
}

type authEvent struct {
	K        string  `json:"k"` // req, tick
	Host     string  `json:"host,omitempty"`
	Required string  `json:"required,omitempty"`
	Desired  string  `json:"desired,omitempty"`
	Dt       float64 `json:"dt,omitempty"`
	// Demand: what the registry really wants for this request when that is not what the caller declared
	// as required ("" = the required scope): a plain request declares nothing and learns from the challenge
	Demand string `json:"registry_demand,omitempty"`
}

func (e authEvent) demand() string {
	if e.Demand != "" {
		return e.Demand
	}
	return e.Required
}

func (e authEvent) String() string {
	if e.K == "tick" {
		return fmt.Sprintf("tick(%gs)", e.Dt)
	}
	if e.K == "revoke" {
		return fmt.Sprintf("registry %s stops accepting every token issued so far", e.Host)
	}
	if e.Demand != "" {
		return fmt.Sprintf("req(%s, required=%q, desired=%q; the registry demands %q)", e.Host, e.Required, e.Desired, e.Demand)
	}
	return fmt.Sprintf("req(%s, required=%q, desired=%q)", e.Host, e.Required, e.Desired)
}

type c10Case struct {
	Hosts   []*authHostCfg `json:"hosts"`
	History []authEvent    `json:"history"`
	Text    []string       `json:"text"`
}

type authSys struct {
	r       *vcore.Run
	prop    string
	cfgs    []*authHostCfg
	net     *authNet
	tr      http.RoundTripper
	hist    []authEvent
	events  []authEvent
	monitor func(s *authSys, ev authEvent, trip int, resp *http.Response, err error, before authSnapshot)
	revoked map[string]bool          // registry hosts that have revoked tokens in this history
	scopes  map[string]ociauth.Scope // one Scope value per text, handed to every request that names it (callers keep and reuse scope values)
}

// scopeValue returns the system's single Scope value for a text.
func (s *authSys) scopeValue(text string) ociauth.Scope {
	if s.scopes == nil {
		s.scopes = map[string]ociauth.Scope{}
	}
	v, ok := s.scopes[text]
	if !ok {
		v = ociauth.ParseScope(text)
		s.scopes[text] = v
	}
	return v
}

type authSnapshot struct {
	mustReuse bool // an issued, comfortably unexpired token covers the required scope
	issued    int
}

func (s *authSys) caseOf() c10Case {
	var text []string
	for _, e := range s.hist {
		text = append(text, e.String())
	}
	return c10Case{Hosts: s.cfgs, History: append([]authEvent(nil), s.hist...), Text: text}
}

func newAuthSys(r *vcore.Run, prop string, cfgs []*authHostCfg, events []authEvent) *authSys {
	// configs are copied so that systems do not share mutable state
	var cp []*authHostCfg
	for _, c := range cfgs {
		cc := *c
		cp = append(cp, &cc)
	}
	authClockMu.Lock()
	n := newAuthNet(cp)
	authClockMu.Unlock()
	s := &authSys{r: r, prop: prop, cfgs: cp, net: n, events: events}
	s.tr = ociauth.NewStdTransport(ociauth.StdTransportParams{Config: n, Transport: n})
	return s
}

func (s *authSys) Enabled() []authEvent { return s.events }

// authClockMu serialises every use of the (global) virtual clock: each step installs its own
// system's time first, so systems explored by parallel workers cannot see each other's clock.
var authClockMu sync.Mutex

func (s *authSys) Apply(ev authEvent, check bool) (tainted bool) {
	authClockMu.Lock()
	defer authClockMu.Unlock()
	s.hist = append(s.hist, ev)
	vsync.SetNow(s.net.now)
	if ev.K == "tick" {
		s.net.tick(time.Duration(ev.Dt * float64(time.Second)))
		return false
	}
	if ev.K == "revoke" {
		for _, it := range s.net.issued {
			if it.Host == ev.Host {
				it.Revoked = true
			}
		}
		if s.revoked == nil {
			s.revoked = map[string]bool{}
		}
		s.revoked[ev.Host] = true
		return false
	}
	required := s.scopeValue(ev.Required)
	before := authSnapshot{issued: len(s.net.issued)}
	for _, it := range s.net.issued {
		// once a registry has revoked tokens behind the client's back the client cannot know which of its
		// cached tokens still work: the economy clause (no token request, one round trip) is not judged
		if it.Host == ev.Host && !s.revoked[ev.Host] && ev.Demand == "" && !s.net.now.Add(2*time.Second).After(it.Issued.Add(it.Lifetime)) && setContains(it.Set, scopeSet(ev.Required)) {
			before.mustReuse = true
		}
	}
	ctx := context.Background()
	ctx = ociauth.ContextWithRequestInfo(ctx, ociauth.RequestInfo{RequiredScope: required})
	if ev.Desired != "" {
		ctx = ociauth.ContextWithScope(ctx, s.scopeValue(ev.Desired))
	}
	req, _ := http.NewRequestWithContext(ctx, "GET", "https://"+ev.Host+"/v2/x/manifests/t", nil)
	req.Header.Set("X-Demand", ev.demand())
	s.net.trip++
	trip := s.net.trip
	var resp *http.Response
	var err error
	if s.r.Guard("history", s.prop+"/RoundTrip", s.caseOf(), func() { resp, err = s.tr.RoundTrip(req) }) {
		return true
	}
	if resp != nil {
		io.Copy(io.Discard, resp.Body)
		resp.Body.Close()
	}
	if check && s.monitor != nil {
		s.monitor(s, ev, trip, resp, err, before)
	}
	return false
}

func (s *authSys) Key() string {
	d := vstate.NewDumper()
	d.SkipTypes = []string{"verif/props.authNet"}
	d.Add("transport", s.tr)
	// the fake world's own state: issued tokens (relative to now), what hosts have seen
	var sb strings.Builder
	for _, it := range s.net.issued {
		fmt.Fprintf(&sb, "%s|%s|%s|%v|%v;", it.Token, it.Host, it.Scope.Canonical().String(), it.Issued.Add(it.Lifetime).Sub(s.net.now), it.Revoked)
	}
	fmt.Fprintf(&sb, "revoked=%v", s.revoked)
	return d.String() + "\nissued=" + sb.String() + fmt.Sprintf("\nnow=%v", s.net.now.Sub(authEpoch))
}

// scopeSet is an independent model of a scope text: the set of (type, resource, action) triples.
func scopeSet(text string) map[[3]string]bool {
	set := map[[3]string]bool{}
	for _, f := range strings.Fields(text) {
		parts := strings.Split(f, ":")
		if len(parts) != 3 {
			set[[3]string{f, "", ""}] = true
			continue
		}
		for _, a := range strings.Split(parts[2], ",") {
			set[[3]string{parts[0], parts[1], a}] = true
		}
	}
	return set
}

func setUnion(sets ...map[[3]string]bool) map[[3]string]bool {
	out := map[[3]string]bool{}
	for _, s := range sets {
		for k := range s {
			out[k] = true
		}
	}
	return out
}

func setEqual(a, b map[[3]string]bool) bool {
	if len(a) != len(b) {
		return false
	}
	for k := range a {
		if !b[k] {
			return false
		}
	}
	return true
}

func setContains(a, b map[[3]string]bool) bool {
	for k := range b {
		if !a[k] {
			return false
		}
	}
	return true
}

func challengeScopeOf(h http.Header) (string, bool) {
	for _, ch := range h["Www-Authenticate"] {
		if !strings.HasPrefix(strings.ToLower(ch), "bearer") {
			continue
		}
		if i := strings.Index(ch, `scope="`); i >= 0 {
			rest := ch[i+7:]
			if j := strings.IndexByte(rest, '"'); j >= 0 {
				return rest[:j], true
			}
		}
		return "", true
	}
	return "", false
}

// c10Monitor checks one RoundTrip's traffic.
func c10Monitor(s *authSys, ev authEvent, trip int, resp *http.Response, err error, before authSnapshot) {
	n := s.net
	required := ociauth.ParseScope(ev.Required)
	desired := ociauth.ParseScope(ev.Desired)
	viol := func(fp, exp, obs string) {
		s.r.Violate("history", "C10/"+fp, s.caseOf(), exp, obs+" | traffic: "+trafficText(n, trip))
	}
	var sent []sentReq
	for _, x := range n.sent {
		if x.Trip == trip {
			sent = append(sent, x)
		}
	}
	tokenReqBefore := false
	refusedFull := false // a token request of this call asked for the full scope and was refused
	var lastChallenge string
	haveChallenge := false
	regTrips := 0
	lastRegStatus := 0
	for i, x := range sent {
		switch x.Kind {
		case "registry":
			regTrips++
			lastRegStatus = x.Status
			if strings.HasPrefix(x.Auth, "Bearer ") {
				tok := strings.TrimPrefix(x.Auth, "Bearer ")
				var it *issuedToken
				for _, cand := range n.issued {
					if cand.Token == tok {
						it = cand
					}
				}
				c := n.hosts[x.Dest]
				static := c != nil && c.Creds == "static" && tok == c.static()
				switch {
				case static:
					// configured for this host
				case it == nil:
					viol("token-never-issued", "a token issued to this transport or configured for the host", "Bearer "+tok)
				case it.Host != x.Dest:
					viol("token-of-another-host", "a token issued for "+x.Dest, "token issued for "+it.Host)
				default:
					if x.Time.After(it.Issued.Add(it.Lifetime)) {
						viol("expired-token-sent", fmt.Sprintf("token unexpired when sent (issued +%v, lifetime %v)", it.Issued.Sub(authEpoch), it.Lifetime), fmt.Sprintf("sent at +%v", x.Time.Sub(authEpoch)))
					}
					if !tokenReqBefore {
						if !setContains(it.Set, scopeSet(ev.Required)) {
							viol("reused-token-does-not-cover-required-scope", "cached token scope covers "+required.Canonical().String(), it.Scope.Canonical().String())
						}
					} else if haveChallenge {
						if cs := ociauth.ParseScope(lastChallenge); !setContains(it.Set, scopeSet(lastChallenge)) {
							viol("fresh-token-does-not-cover-challenge-scope", "token scope covers the challenge scope "+cs.Canonical().String(), it.Scope.Canonical().String())
						}
					}
				}
			}
			if x.Status == 401 {
				// what challenge did the registry send? reconstruct from its config
				if c := n.hosts[x.Dest]; c != nil {
					h := http.Header{}
					for _, ch := range n.challengeFor(c, ociauth.ParseScope(ev.demand())) {
						h.Add("Www-Authenticate", ch)
					}
					lastChallenge, haveChallenge = challengeScopeOf(h)
				}
			}
			if i == 0 && before.mustReuse {
				if !strings.HasPrefix(x.Auth, "Bearer ") {
					viol("cached-token-not-used", "the cached covering token on the first request", "Authorization: "+x.Auth)
				}
			}
		case "token":
			if before.mustReuse && regTrips == 0 {
				viol("token-request-despite-cached-token", "no token request when a cached unexpired token covers the required scope", x.Method+" "+x.Dest)
			}
			tokenReqBefore = true
			// scope asked for
			var text string
			if x.Method == "POST" {
				form, _ := url.ParseQuery(x.Body)
				text = form.Get("scope")
			} else {
				q, _ := url.ParseQuery(x.Query)
				text = strings.Join(q["scope"], " ")
			}
			// compared as plain sets of triples, independently of ociauth.Scope (which is itself under test)
			asked := scopeSet(text)
			chal := scopeSet(lastChallenge)
			reqSet, desSet := scopeSet(ev.Required), scopeSet(ev.Desired)
			full := setUnion(chal, reqSet, desSet)
			if !haveChallenge {
				full = setUnion(reqSet, desSet)
			}
			switch {
			case setEqual(asked, full):
				if haveChallenge && setContains(chal, setUnion(reqSet, desSet)) && len(chal) > 0 && text != lastChallenge {
					viol("challenge-scope-text-not-kept", fmt.Sprintf("scope text %q verbatim (required and desired add nothing)", lastChallenge), fmt.Sprintf("%q", text))
				}
				if x.Status != 200 {
					refusedFull = true
				}
			case haveChallenge && setEqual(asked, chal):
				// fallback after the token server refused the wider request
				if !refusedFull {
					viol("narrow-token-request-without-asking-for-the-full-scope-first", fmt.Sprintf("a token request for challenge+required+desired = %q + %q + %q; the challenge scope alone only after that was refused in this call", lastChallenge, ev.Required, ev.Desired), fmt.Sprintf("%q", text))
				}
			case !haveChallenge && setEqual(asked, reqSet):
				// the same fallback on the proactive path (remembered challenge + refresh token, no 401 in
				// this call): the wider request was refused, the required scope alone is asked for
				if !refusedFull {
					viol("narrow-token-request-without-asking-for-the-full-scope-first", fmt.Sprintf("a token request for required+desired = %q + %q; the required scope alone only after that was refused in this call", ev.Required, ev.Desired), fmt.Sprintf("%q", text))
				}
			default:
				viol("token-request-scope", fmt.Sprintf("challenge+required+desired = %q + %q + %q (or, on the fallback, the challenge scope alone / the required scope alone when no challenge was received in this call)", lastChallenge, ev.Required, ev.Desired), fmt.Sprintf("%q", text))
			}
			_ = desired
		}
	}
	if before.mustReuse && lastRegStatus == 200 && regTrips != 1 {
		viol("extra-round-trip-despite-cached-token", "exactly one registry round trip", fmt.Sprint(regTrips))
	}
	if regTrips > 2 {
		viol("more-than-two-attempts", "at most two attempts against the registry", fmt.Sprint(regTrips))
	}
	s.r.Outcome(fmt.Sprintf("reg=%d tok=%v reuse=%v", regTrips, tokenReqBefore, before.mustReuse))
}

func trafficText(n *authNet, trip int) string {
	var parts []string
	for _, x := range n.sent {
		if x.Trip == trip {
			q := x.Query
			if x.Method == "POST" {
				q = x.Body
			}
			parts = append(parts, fmt.Sprintf("%s %s%s?%s [%s] -> %d", x.Method, x.Dest, x.Path, truncate(q, 120), truncate(x.Auth, 40), x.Status))
		}
	}
	return strings.Join(parts, " ; ")
}

// ---- concurrent batches (E1) ----

type c10Batch struct {
	Hosts    []*authHostCfg `json:"hosts"`
	Prologue []authEvent    `json:"prologue"`
	Threads  []authEvent    `json:"threads"` // one request per thread
	Schedule []int32        `json:"schedule,omitempty"`
}

func c10RunBatch(r *vcore.Run, b c10Batch, bound int) vsched.Stats {
	var sys *authSys
	ex := vsched.Explorer{Bound: bound, Deadline: 3 * time.Minute, MaxExec: 500000}
	authClockMu.Lock()
	defer authClockMu.Unlock()
	return ex.Explore(func(s *vsched.Sched) {
		var cp []*authHostCfg
		for _, c := range b.Hosts {
			cc := *c
			cp = append(cp, &cc)
		}
		n := newAuthNet(cp)
		sys = &authSys{r: r, prop: "C10", cfgs: cp, net: n}
		sys.tr = ociauth.NewStdTransport(ociauth.StdTransportParams{Config: n, Transport: n})
		// scope values are built once and shared by every request (and thread) that names them
		shared := map[string]ociauth.Scope{}
		for _, ev := range append(append([]authEvent(nil), b.Prologue...), b.Threads...) {
			shared[ev.Required] = ociauth.ParseScope(ev.Required)
			shared[ev.Desired] = ociauth.ParseScope(ev.Desired)
		}
		doReq := func(ev authEvent, trip int) {
			ctx := context.WithValue(context.Background(), authTripKey{}, trip)
			ctx = ociauth.ContextWithRequestInfo(ctx, ociauth.RequestInfo{RequiredScope: shared[ev.Required]})
			if ev.Desired != "" {
				ctx = ociauth.ContextWithScope(ctx, shared[ev.Desired])
			}
			req, _ := http.NewRequestWithContext(ctx, "GET", "https://"+ev.Host+"/v2/x/manifests/t", nil)
			req.Header.Set("X-Demand", ev.demand())
			resp, err := sys.tr.RoundTrip(req)
			if err == nil && resp != nil {
				io.Copy(io.Discard, resp.Body)
				resp.Body.Close()
			}
		}
		trip := 0
		for _, ev := range b.Prologue {
			if ev.K == "tick" {
				n.tick(time.Duration(ev.Dt * float64(time.Second)))
				continue
			}
			trip++
			doReq(ev, trip)
		}
		for i, ev := range b.Threads {
			ev, t := ev, trip+1+i
			s.Go(fmt.Sprintf("T%d", i), func() { doReq(ev, t) })
		}
	}, func(choices []int32, res vsched.Result) bool {
		bb := b
		bb.Schedule = choices
		if res.Failed != 0 {
			r.Violate("batch", "C10/batch/"+map[int]string{1: "deadlock", 2: "horizon", 3: "HARNESS-ERROR/nondeterminism", 4: "HARNESS-ERROR/real-block"}[res.Failed], bb, "every schedule completes", res.FailMsg)
			return false
		}
		// per-trip safety monitor on the threads' traffic
		n := sys.net
		base := 0
		for _, ev := range b.Prologue {
			if ev.K == "req" {
				base++
			}
		}
		for i, ev := range b.Threads {
			trip := base + 1 + i
			required := ociauth.ParseScope(ev.Required)
			regTrips := 0
			tokenReq := false
			chalText, haveChal := "", false
			for _, x := range n.sent {
				if x.Trip != trip {
					continue
				}
				if x.Kind == "token" {
					tokenReq = true
					// answering a challenge received in this call: the token request names that challenge's scope
					if haveChal {
						var text string
						if x.Method == "POST" {
							form, _ := url.ParseQuery(x.Body)
							text = form.Get("scope")
						} else {
							q, _ := url.ParseQuery(x.Query)
							text = strings.Join(q["scope"], " ")
						}
						if !setContains(scopeSet(text), scopeSet(chalText)) {
							r.Violate("batch", "C10/batch/token-request-does-not-ask-for-the-challenge-scope", bb, "the scope of the challenge this call received: "+chalText, text+" | "+trafficText(n, trip))
						}
					}
				}
				if x.Kind != "registry" {
					continue
				}
				regTrips++
				if x.Status == 401 {
					if c := n.hosts[x.Dest]; c != nil {
						h := http.Header{}
						for _, ch := range n.challengeFor(c, ociauth.ParseScope(ev.demand())) {
							h.Add("Www-Authenticate", ch)
						}
						chalText, haveChal = challengeScopeOf(h)
					}
				}
				if !strings.HasPrefix(x.Auth, "Bearer ") {
					continue
				}
				tok := strings.TrimPrefix(x.Auth, "Bearer ")
				var it *issuedToken
				for _, c := range n.issued {
					if c.Token == tok {
						it = c
					}
				}
				switch {
				case it == nil:
					r.Violate("batch", "C10/batch/token-never-issued", bb, "a token issued to this transport", tok)
				case it.Host != x.Dest:
					r.Violate("batch", "C10/batch/token-of-another-host", bb, x.Dest, it.Host)
				case x.Time.After(it.Issued.Add(it.Lifetime)):
					r.Violate("batch", "C10/batch/expired-token-sent", bb, "unexpired", tok)
				case tokenReq && haveChal && regTrips == 2 && !setContains(it.Set, scopeSet(chalText)):
					r.Violate("batch", "C10/batch/fresh-token-does-not-cover-challenge-scope", bb, "a token covering the challenge scope "+chalText, it.Scope.Canonical().String()+" | "+trafficText(n, trip))
				case !tokenReq && !setContains(it.Set, scopeSet(ev.Required)):
					r.Violate("batch", "C10/batch/reused-token-does-not-cover-required-scope", bb, required.Canonical().String(), it.Scope.Canonical().String()+" | "+trafficText(n, trip))
				}
			}
			if regTrips > 2 {
				r.Violate("batch", "C10/batch/more-than-two-attempts", bb, "<= 2", fmt.Sprint(regTrips))
			}
		}
		// epilogue (sequential, after every thread has finished): whatever the threads obtained must be
		// in the cache now: repeating each thread's request must not need another token request
		for i, ev := range b.Threads {
			if ev.Demand != "" {
				continue // the caller declares nothing: which cached token it presents first is its own business
			}
			required := ociauth.ParseScope(ev.Required)
			must := false
			for _, it := range n.issued {
				if it.Host == ev.Host && !n.now.Add(2*time.Second).After(it.Issued.Add(it.Lifetime)) && setContains(it.Set, scopeSet(ev.Required)) {
					must = true
				}
			}
			if !must {
				continue
			}
			trip := 1000 + i
			ctx := context.WithValue(context.Background(), authTripKey{}, trip)
			ctx = ociauth.ContextWithRequestInfo(ctx, ociauth.RequestInfo{RequiredScope: required})
			req, _ := http.NewRequestWithContext(ctx, "GET", "https://"+ev.Host+"/v2/x/manifests/t", nil)
			req.Header.Set("X-Demand", ev.demand())
			if resp, err := sys.tr.RoundTrip(req); err == nil && resp != nil {
				resp.Body.Close()
			}
			for _, x := range n.sent {
				if x.Trip == trip && x.Kind == "token" {
					r.Violate("batch", "C10/batch/token-lost-after-concurrent-requests", bb, "a token issued during the batch is reused afterwards (no token request)", trafficText(n, trip))
					break
				}
			}
		}
		r.Outcome(fmt.Sprintf("batch-tokens=%d", len(n.issued)))
		return true
	})
}

func c10Batches() []c10Batch {
	base := func() *authHostCfg {
		return &authHostCfg{Host: "a.example", Scheme: "bearer", Challenge: "exact", Creds: "refresh", TokenMode: "grant", Lifetime: 2}
	}
	anon := base()
	anon.Creds = "none"
	var out []c10Batch
	pull := authEvent{K: "req", Host: "a.example", Required: "repository:x:pull"}
	push := authEvent{K: "req", Host: "a.example", Required: "repository:x:push"}
	other := authEvent{K: "req", Host: "a.example", Required: "repository:y:pull", Desired: "repository:x:pull"}
	for _, cfg := range []*authHostCfg{base(), anon} {
		out = append(out,
			c10Batch{Hosts: []*authHostCfg{cfg}, Threads: []authEvent{pull, push}},
			c10Batch{Hosts: []*authHostCfg{cfg}, Threads: []authEvent{pull, pull}},
			c10Batch{Hosts: []*authHostCfg{cfg}, Prologue: []authEvent{pull}, Threads: []authEvent{pull, other}},
			c10Batch{Hosts: []*authHostCfg{cfg}, Prologue: []authEvent{pull, {K: "tick", Dt: 1.5}}, Threads: []authEvent{pull, push}},
			c10Batch{Hosts: []*authHostCfg{cfg}, Prologue: []authEvent{pull}, Threads: []authEvent{pull, push, other}},
		)
		// plain requests that declare nothing and are challenged for different scopes at the same time
		plainX := authEvent{K: "req", Host: "a.example", Demand: "repository:x:pull"}
		plainY := authEvent{K: "req", Host: "a.example", Demand: "repository:y:pull"}
		out = append(out,
			c10Batch{Hosts: []*authHostCfg{cfg}, Threads: []authEvent{plainX, plainY}},
			c10Batch{Hosts: []*authHostCfg{cfg}, Prologue: []authEvent{pull}, Threads: []authEvent{plainX, plainY}},
		)
		// a token server that takes longer than the cached token still has to live: a request that waited
		// for the other one's token acquisition must look at the clock again before reusing the cache
		slow := *cfg
		slow.TokenDelay = 2
		out = append(out,
			c10Batch{Hosts: []*authHostCfg{&slow}, Prologue: []authEvent{pull, {K: "tick", Dt: 0.5}}, Threads: []authEvent{pull, push}},
			c10Batch{Hosts: []*authHostCfg{&slow}, Prologue: []authEvent{pull, {K: "tick", Dt: 0.5}}, Threads: []authEvent{pull, other}},
		)
	}
	return out
}

func c10Configs(thorough bool) [][]*authHostCfg {
	base := authHostCfg{Host: "a.example", Scheme: "bearer", Challenge: "exact", Creds: "none", TokenMode: "grant", Lifetime: 0}
	var out [][]*authHostCfg
	add := func(f func(c *authHostCfg)) {
		c := base
		f(&c)
		out = append(out, []*authHostCfg{&c})
	}
	add(func(c *authHostCfg) {})
	for _, ch := range []string{"wider", "narrower", "unrelated", "empty", "unparsable"} {
		ch := ch
		add(func(c *authHostCfg) { c.Challenge = ch })
	}
	for _, cr := range []string{"basic", "refresh", "static"} {
		cr := cr
		add(func(c *authHostCfg) { c.Creds = cr })
		for _, tm := range []string{"ceiling", "nopost"} {
			tm := tm
			add(func(c *authHostCfg) { c.Creds, c.TokenMode = cr, tm })
		}
		for _, lt := range []int{1, 2, 3} {
			lt := lt
			add(func(c *authHostCfg) { c.Creds, c.Lifetime = cr, lt })
		}
		if thorough {
			for _, ch := range []string{"wider", "narrower", "empty"} {
				ch := ch
				add(func(c *authHostCfg) { c.Creds, c.Challenge = cr, ch })
			}
		}
	}
	for _, lt := range []int{1, 2, 3} {
		lt := lt
		add(func(c *authHostCfg) { c.Lifetime = lt })
		add(func(c *authHostCfg) { c.Lifetime, c.TokenMode = lt, "ceiling" })
	}
	// tokens of different lifetimes in one cache: a long-lived one issued before a short-lived one
	add(func(c *authHostCfg) { c.LifetimePattern = []int{0, 1} })
	add(func(c *authHostCfg) { c.LifetimePattern = []int{3, 1, 2}; c.Creds = "refresh" })
	add(func(c *authHostCfg) { c.TokenMode = "varying-fields"; c.Lifetime = 2 })
	add(func(c *authHostCfg) { c.TokenMode = "varying-fields"; c.Lifetime = 2; c.Creds = "refresh" })
	add(func(c *authHostCfg) { c.TokenMode = "ceiling" })
	add(func(c *authHostCfg) { c.TokenMode, c.Challenge = "ceiling", "wider" })
	// two hosts
	b := base
	b.Host = "b.example:5000"
	b.Creds = "refresh"
	a2 := base
	a2.Creds = "basic"
	a2.Lifetime = 2
	out = append(out, []*authHostCfg{&a2, &b})
	// two registries whose host strings differ only in their last characters (same machine, two ports):
	// whatever the transport keys its per-registry state by must keep them apart
	p1, p2 := base, base
	p1.Host, p1.Creds, p1.Lifetime = "a.example:4443", "refresh", 60
	p2.Host, p2.Creds, p2.Lifetime = "a.example:3344", "static", 60
	out = append(out, []*authHostCfg{&p1, &p2})
	p3, p4 := base, base
	p3.Host, p3.Creds, p3.Lifetime = "a.example:443", "refresh", 60
	p4.Host, p4.Creds, p4.Lifetime = "a.example", "basic", 60
	out = append(out, []*authHostCfg{&p3, &p4})
	return out
}

func c10Events(cfgs []*authHostCfg, thorough bool) []authEvent {
	reqs := []string{"", "repository:x:pull", "repository:x:push", "repository:x:pull,push", "repository:y:pull", "registry:catalog:*"}
	var evs []authEvent
	for _, c := range cfgs {
		for _, rq := range reqs {
			evs = append(evs, authEvent{K: "req", Host: c.Host, Required: rq})
			if rq == "repository:x:pull" || (thorough && rq != "") {
				evs = append(evs, authEvent{K: "req", Host: c.Host, Required: rq, Desired: "repository:y:pull"})
			}
			if rq == "repository:x:pull" {
				// desired adds only an action on a repository the challenge already names
				evs = append(evs, authEvent{K: "req", Host: c.Host, Required: rq, Desired: "repository:x:push"})
			}
		}
	}
	// plain requests: nothing declared, the registry's challenge says what is needed
	if len(cfgs) == 1 {
		evs = append(evs, authEvent{K: "req", Host: cfgs[0].Host, Demand: "repository:x:pull"}, authEvent{K: "req", Host: cfgs[0].Host, Demand: "repository:y:pull"})
	}
	// a token over three repositories, then a two-repository demand it does not cover (cross-repository mount)
	for _, c := range cfgs {
		evs = append(evs,
			authEvent{K: "req", Host: c.Host, Required: "repository:x:pull", Desired: "repository:y:pull,push repository:z:pull"},
			authEvent{K: "req", Host: c.Host, Required: "repository:y:pull repository:z:push"})
	}
	evs = append(evs, authEvent{K: "tick", Dt: 0.5}, authEvent{K: "tick", Dt: 1}, authEvent{K: "tick", Dt: 61})
	if len(cfgs) == 1 && len(cfgs[0].LifetimePattern) > 0 {
		evs = append(evs, authEvent{K: "tick", Dt: 1.5})
	}
	return evs
}

func c10Check(r *vcore.Run) vcore.Coverage {
	// instrumentation probe: the virtual clock must be the transport's clock
	{
		cfg := &authHostCfg{Host: "a.example", Scheme: "bearer", Challenge: "exact", Creds: "none", TokenMode: "grant", Lifetime: 1}
		s := newAuthSys(r, "C10", []*authHostCfg{cfg}, nil)
		s.Apply(authEvent{K: "req", Host: "a.example", Required: "repository:x:pull"}, false)
		s.Apply(authEvent{K: "tick", Dt: 61}, false)
		s.Apply(authEvent{K: "req", Host: "a.example", Required: "repository:x:pull"}, false)
		if len(s.net.issued) != 2 {
			r.Violate("history", "C10/HARNESS-ERROR/instrumentation", "probe", "time.Now in ociauth replaced by the virtual clock (vrewrite overlay): a 1 s token is expired 61 virtual seconds later", fmt.Sprintf("%d tokens issued", len(s.net.issued)))
			return vcore.Coverage{}
		}
	}
	depth := 3
	if r.Thorough() {
		depth = 4
	}
	var states, trans int64
	exhaustive := true
	var notes []map[string]any
	for _, cfgs := range c10Configs(r.Thorough()) {
		cfgs := cfgs
		events := c10Events(cfgs, r.Thorough())
		d := depth
		if len(cfgs[0].LifetimePattern) > 0 {
			d = depth + 1
		}
		st := vstate.BFS(vstate.Spec[authEvent]{
			New: func() vstate.System[authEvent] {
				s := newAuthSys(r, "C10", cfgs, events)
				s.monitor = c10Monitor
				return s
			},
			MaxDepth: d, Deadline: 4 * time.Minute, MaxStates: 150000,
		})
		states += st.States
		trans += st.Transitions
		if st.CapHit != "" {
			exhaustive = false
		}
		notes = append(notes, map[string]any{"hosts": cfgs, "states": st.States, "transitions": st.Transitions, "completed_depth": st.Depth, "cap_hit": st.CapHit})
		for _, h := range st.Samples {
			if len(notes) < 4 {
				var text []string
				for _, e := range h {
					text = append(text, e.String())
				}
				r.Sample(fmt.Sprintf("history-%d", len(notes)), text)
			}
		}
	}
	// registries that stop accepting tokens they issued (key rotation, revocation): safety clauses only
	{
		rdepth := 5
		if r.Thorough() {
			rdepth = 6
		}
		for _, creds := range []string{"none", "refresh"} {
			for _, chal := range []string{"exact", "wider"} {
				cfgs := []*authHostCfg{{Host: "a.example", Scheme: "bearer", Challenge: chal, Creds: creds, TokenMode: "grant"}}
				events := []authEvent{
					{K: "req", Host: "a.example", Required: "repository:x:pull", Desired: "repository:y:pull"},
					{K: "req", Host: "a.example", Required: "repository:x:pull"},
					{K: "req", Host: "a.example", Required: "repository:y:pull"},
					{K: "revoke", Host: "a.example"},
					{K: "tick", Dt: 61},
				}
				st := vstate.BFS(vstate.Spec[authEvent]{
					New: func() vstate.System[authEvent] {
						s := newAuthSys(r, "C10", cfgs, events)
						s.monitor = c10Monitor
						return s
					},
					MaxDepth: rdepth, Deadline: 2 * time.Minute, MaxStates: 100000,
				})
				states += st.States
				trans += st.Transitions
				if st.CapHit != "" {
					exhaustive = false
				}
				notes = append(notes, map[string]any{"hosts": cfgs, "revoking_registry": true, "states": st.States, "transitions": st.Transitions, "completed_depth": st.Depth, "cap_hit": st.CapHit})
			}
		}
	}
	// concurrent batches: all schedules with <= 2 preemptions (thorough: 3)
	bound := 2
	if r.Thorough() {
		bound = 3
	}
	var bexec, bpoints int64
	for _, b := range c10Batches() {
		st := c10RunBatch(r, b, bound)
		bexec += st.Executions
		bpoints += st.Points
		if !st.Complete {
			exhaustive = false
		}
	}
	r.Notes["concurrent_batches"] = map[string]any{"batches": len(c10Batches()), "schedules": bexec, "scheduling_points": bpoints, "preemption_bound": bound}
	states += bexec
	trans += bpoints
	vsync.SetNow(time.Time{})
	r.Notes["runs"] = notes
	r.Assume = []string{
		"the registry's demand for a request equals the request's required scope; challenge scopes come from the menu {exact, wider, narrower, unrelated, empty, unparsable}",
		"lifetime omitted means the documented default of 60 s; the reuse obligation applies to tokens with at least 2 s of life left (the transport's own expiry margin is not part of the statement); a token is expired when now > issue + lifetime",
		"time.Now inside ociauth is replaced by a virtual clock through the build overlay; nothing sleeps",
		"concurrent batches: 18 harnesses (4 with a token server slower than the cached token's remaining life) of 2-3 threads issuing one RoundTrip each from a seeded state, all schedules within the preemption bound, scheduling points at the transport's mutexes / once and at the fake network; safety part of the monitor only (own, unexpired, sufficient token; <= 2 attempts)",
	}
	return vcore.Coverage{States: states, Transitions: trans, TracesImpl: trans, Evaluations: trans, Nontrivial: states, Exhaustive: exhaustive,
		Rule: fmt.Sprintf("BFS to depth %d over event histories {request(host, required in 6 scopes, desired in 2), tick 0.5 s / 1 s / 61 s} for %d registry/token-server/credential configurations (challenge scope exact/wider/narrower/unrelated/empty/unparsable; token server grants / refuses over-wide / lacks POST; lifetimes omitted,1,2,3 s; credentials none/basic/refresh/static; one two-host configuration); state = reflective dump of the transport + issued tokens relative to the virtual clock; monitor on every forwarded request and token request; plus histories to depth 5 (thorough 6) with a registry that stops accepting every token issued so far (safety clauses only afterwards)", depth, len(c10Configs(r.Thorough())))}
}

func c10Replay(r *vcore.Run, sub string, raw json.RawMessage) {
	if sub == "batch" {
		// the artefact of a concurrent batch is the batch: every schedule within the bound is explored again
		// (a recorded schedule is tied to the scheduling points of the code it was recorded on)
		var b c10Batch
		if json.Unmarshal(raw, &b) == nil {
			b.Schedule = nil
			c10RunBatch(r, b, 3)
			vsync.SetNow(time.Time{})
		}
		return
	}
	var c c10Case
	if json.Unmarshal(raw, &c) != nil {
		return
	}
	s := newAuthSys(r, "C10", c.Hosts, nil)
	s.monitor = c10Monitor
	for _, ev := range c.History {
		s.hist = s.hist[:0]
		_ = ev
	}
	s.hist = nil
	for _, ev := range c.History {
		s.Apply(ev, true)
	}
	vsync.SetNow(time.Time{})
}
