package props

import (
	"context"
	"encoding/json"
	"errors"
	"fmt"
	"reflect"
	"strings"
	"sync/atomic"

	"cuelabs.dev/go/oci/ociregistry"
	"cuelabs.dev/go/oci/ociregistry/ocifilter"

	"verif/vcore"
)

// C12: AccessChecker / Select never let a rejected repository through.
// E4: methods x policies (all allow/deny assignments to every (repository,
// access kind) slot) x call sequences of length <= 2 on one wrapper instance,
// against a recording backend and a twin backend called directly.

func init() {
	vcore.Register(&vcore.Prop{ID: "C12", Level: "exploration", Engine: "E4-enum", Check: c12Check, Replay: c12Replay})
}

type c12Inv struct {
	M       string `json:"m"`
	Repo    string `json:"repo"`
	From    string `json:"from,omitempty"`
	EmptyID bool   `json:"empty_upload_id,omitempty"` // PushBlobChunkedResume with the empty upload ID
}

func (i c12Inv) String() string {
	if i.M == "MountBlob" {
		return fmt.Sprintf("MountBlob(%s->%s)", i.From, i.Repo)
	}
	if i.EmptyID {
		return i.M + "(" + i.Repo + ",id=\"\")"
	}
	return i.M + "(" + i.Repo + ")"
}

var c12Dig = sha256Digest([]byte("hello"))

func (i c12Inv) args() opArgs {
	id := "upload-id-1"
	if i.EmptyID {
		id = ""
	}
	return opArgs{Repo: i.Repo, From: i.From, Tag: "t", ID: id, Digest: c12Dig, O0: 1, O1: 3, Chunk: 2,
		DescDigest: c12Dig, DescSize: 5, Data: []byte("hello"), MediaType: "application/octet-stream", StartAfter: "", ArtifactType: ""}
}

func c12Invocations() []c12Inv {
	var out []c12Inv
	for _, m := range allMethods {
		switch m {
		case "MountBlob":
			out = append(out, c12Inv{M: m, Repo: "a", From: "b"}, c12Inv{M: m, Repo: "a", From: "a"}, c12Inv{M: m, Repo: "b", From: "a"})
		case "Repositories":
			out = append(out, c12Inv{M: m})
		default:
			out = append(out, c12Inv{M: m, Repo: "a"})
		}
	}
	// the same session or content addressed through the other repository (one method per access
	// kind, plus both ways of obtaining a writer: a resume names an upload ID an earlier call may have vetted)
	for _, m := range []string{"GetBlob", "PushBlob", "PushBlobChunked", "PushBlobChunkedResume", "DeleteBlob", "Tags"} {
		out = append(out, c12Inv{M: m, Repo: "b"})
	}
	// resuming "nothing": still a write to that repository, still the same method on the wrapped registry
	out = append(out, c12Inv{M: "PushBlobChunkedResume", Repo: "a", EmptyID: true}, c12Inv{M: "PushBlobChunkedResume", Repo: "b", EmptyID: true})
	return out
}

var c12Kinds = []ocifilter.AccessKind{ocifilter.AccessRead, ocifilter.AccessWrite, ocifilter.AccessDelete, ocifilter.AccessList}
var c12KindNames = []string{"read", "write", "delete", "list"}

// slots: (a,R) (a,W) (a,D) (a,L) (b,R) (b,W) (b,D) (b,L) (*,L)
func c12Slot(repo string, k ocifilter.AccessKind) int {
	switch repo {
	case "a":
		return int(k)
	case "b":
		return 4 + int(k)
	case "*":
		if k == ocifilter.AccessList {
			return 8
		}
	}
	return -1
}

const c12Slots = 9

type c12Deny struct {
	repo string
	kind ocifilter.AccessKind
}

func (d *c12Deny) Error() string {
	return fmt.Sprintf("policy denies %s/%s", d.repo, c12KindNames[d.kind])
}

type c12Policy struct {
	mask   uint32 // bit set = DENY that slot
	errs   [c12Slots]*c12Deny
	asked  []string
	selAll map[string]bool // Select mode: allowed names
}

func newC12Policy(mask uint32) *c12Policy {
	p := &c12Policy{mask: mask}
	for _, repo := range []string{"a", "b", "*"} {
		for _, k := range c12Kinds {
			if s := c12Slot(repo, k); s >= 0 {
				p.errs[s] = &c12Deny{repo, k}
			}
		}
	}
	return p
}

func (p *c12Policy) check(repo string, k ocifilter.AccessKind) error {
	p.asked = append(p.asked, repo+"/"+c12KindNames[k])
	s := c12Slot(repo, k)
	if s >= 0 && p.mask&(1<<s) != 0 {
		return p.errs[s]
	}
	return nil
}

func (p *c12Policy) denied(repo string, kind string) *c12Deny {
	for i, n := range c12KindNames {
		if n == kind {
			if s := c12Slot(repo, c12Kinds[i]); s >= 0 && p.mask&(1<<s) != 0 {
				return p.errs[s]
			}
		}
	}
	return nil
}

// needed returns the (repo, kind) checks the documented mapping requires.
func (i c12Inv) needed() [][2]string {
	switch {
	case i.M == "MountBlob":
		return [][2]string{{i.From, "read"}, {i.Repo, "write"}}
	case i.M == "Repositories":
		return [][2]string{{"*", "list"}}
	}
	return [][2]string{{i.Repo, methodKind(i.M)}}
}

type c12Case struct {
	Wrapper string   `json:"wrapper"`
	Mask    uint32   `json:"deny_mask"`
	Denied  []string `json:"denied_slots"`
	Seq     []c12Inv `json:"sequence"`
	Allowed []string `json:"select_allowed,omitempty"`
}

func c12SlotNames(mask uint32) []string {
	names := []string{"a/read", "a/write", "a/delete", "a/list", "b/read", "b/write", "b/delete", "b/list", "*/list"}
	var out []string
	for i, n := range names {
		if mask&(1<<i) != 0 {
			out = append(out, n)
		}
	}
	return out
}

// useWriter exercises a returned writer so that writer traffic is logged too.
func c12UseWriter(res opResult) string {
	if res.W == nil {
		return ""
	}
	n, err := res.W.Write([]byte("xy"))
	d, cerr := res.W.Commit(c12Dig)
	res.W.Close()
	return fmt.Sprintf(" write=%d,%v size=%d commit=%s,%v", n, err, res.W.Size(), descText(d), cerr)
}

func c12Run(r *vcore.Run, sub string, c c12Case) {
	backend := newRecBackend()
	backend.Repos = []string{"a", "b", "c"}
	backend.TagsL = []string{"t", "u"}
	backend.UploadID = "upload-id-1" // the ID every resume in the sequence names
	pol := newC12Policy(c.Mask)
	var wrapped ociregistry.Interface
	allowedSel := map[string]bool{}
	if c.Wrapper == "Select" {
		for _, n := range c.Allowed {
			allowedSel[n] = true
		}
		wrapped = ocifilter.Select(backend.Funcs(), func(name string) bool { return allowedSel[name] })
	} else {
		wrapped = ocifilter.AccessChecker(backend.Funcs(), pol.check)
	}
	ctx := context.Background()
	for pos, inv := range c.Seq {
		fpBase := fmt.Sprintf("C12/%s/%s", c.Wrapper, inv.M)
		if inv.M == "MountBlob" && inv.From == inv.Repo {
			fpBase += "(same-repo)"
		}
		suffix := ""
		if pos > 0 {
			suffix = "/after-" + methodKind(c.Seq[pos-1].M)
		}
		before := len(backend.Calls)
		var res opResult
		var extra string
		if r.Guard(sub, fpBase, c, func() {
			res = callMethod(ctx, wrapped, inv.M, inv.args())
			extra = c12UseWriter(res)
		}) {
			return
		}
		calls := append([]recCall(nil), backend.Calls[before:]...)
		// twin: the same call made directly
		twin := newRecBackend()
		twin.Repos, twin.TagsL, twin.UploadID = backend.Repos, backend.TagsL, backend.UploadID
		tres := callMethod(ctx, twin.Funcs(), inv.M, inv.args())
		textra := c12UseWriter(tres)
		// expected decision
		var denyErrs []error
		if c.Wrapper == "Select" {
			for _, nd := range inv.needed() {
				if nd[0] == "*" && inv.M == "Repositories" {
					continue // the catalogue as a whole; a repository literally called "*" is an ordinary (rejected) name
				}
				if !allowedSel[nd[0]] {
					if nd[1] == "write" {
						denyErrs = append(denyErrs, ociregistry.ErrDenied)
					} else {
						denyErrs = append(denyErrs, ociregistry.ErrNameUnknown)
					}
				}
			}
		} else {
			for _, nd := range inv.needed() {
				if d := pol.denied(nd[0], nd[1]); d != nil {
					denyErrs = append(denyErrs, d)
				}
			}
		}
		if len(denyErrs) > 0 {
			r.Outcome("denied")
			if len(calls) != 0 {
				r.Violate(sub, fpBase+"/backend-invoked-when-rejected"+suffix, c, "zero backend calls", fmt.Sprint(calls))
			}
			ok := false
			for _, de := range denyErrs {
				if c.Wrapper == "Select" {
					ok = ok || errors.Is(res.Err, de)
				} else {
					ok = ok || res.Err == de || errors.Is(res.Err, de)
				}
			}
			if !ok {
				r.Violate(sub, fpBase+"/wrong-rejection-error"+suffix, c, fmt.Sprintf("one of %v", denyErrs), fmt.Sprintf("%v (result %q)", res.Err, res.Out))
			}
			if res.Post != "" {
				r.Violate(sub, fpBase+"/protocol"+suffix, c, "clean protocol", res.Post)
			}
			continue
		}
		r.Outcome("allowed")
		if inv.M == "Repositories" {
			// items: allowed under both Read and List must appear; denied under both must not
			got := map[string]bool{}
			for _, it := range strings.Split(res.Out, ",") {
				if it != "" {
					got[it] = true
				}
			}
			for _, name := range backend.Repos {
				var must, mustNot bool
				if c.Wrapper == "Select" {
					must, mustNot = allowedSel[name], !allowedSel[name]
				} else {
					dr, dl := pol.denied(name, "read") != nil, pol.denied(name, "list") != nil
					must, mustNot = !dr && !dl, dr && dl
				}
				if must && !got[name] {
					r.Violate(sub, fpBase+"/allowed-repository-missing"+suffix, c, name+" listed", res.text())
				}
				if mustNot && got[name] {
					r.Violate(sub, fpBase+"/rejected-repository-listed"+suffix, c, name+" not listed", res.text())
				}
			}
			if res.Err != nil {
				r.Violate(sub, fpBase+"/unexpected-error"+suffix, c, "no error", res.Err.Error())
			}
			if len(calls) != 1 || calls[0].Method != "Repositories" {
				r.Violate(sub, fpBase+"/calls-differ"+suffix, c, "one Repositories call", fmt.Sprint(calls))
			}
			continue
		}
		if res.text()+extra != tres.text()+textra {
			r.Violate(sub, fpBase+"/result-differs"+suffix, c, tres.text()+textra, res.text()+extra)
		}
		if !c12SameCalls(calls, twin.Calls) {
			r.Violate(sub, fpBase+"/calls-differ"+suffix, c, fmt.Sprint(twin.Calls), fmt.Sprint(calls))
		}
	}
}

func c12SameCalls(a, b []recCall) bool {
	if len(a) != len(b) {
		return false
	}
	for i := range a {
		x, y := a[i], b[i]
		x.ctx, y.ctx = nil, nil
		if !reflect.DeepEqual(x, y) {
			return false
		}
	}
	return true
}

type c12ListCase struct {
	Wrapper   string   `json:"wrapper"`
	Repos     []string `json:"backend_repositories"`
	Allowed   []string `json:"allowed"`
	After     string   `json:"start_after"`
	StopAfter int      `json:"stop_after"`
	ErrAfter  int      `json:"backend_error_after"`
}

var c12BackendErr = errors.New("backend listing error")

func c12RunList(r *vcore.Run, c c12ListCase) {
	backend := newRecBackend()
	backend.Repos = c.Repos
	if c.ErrAfter >= 0 {
		backend.ListErrAfter, backend.ListErr = c.ErrAfter, c12BackendErr
	}
	allowed := map[string]bool{}
	for _, n := range c.Allowed {
		allowed[n] = true
	}
	var wrapped ociregistry.Interface
	if c.Wrapper == "Select" {
		wrapped = ocifilter.Select(backend.Funcs(), func(n string) bool { return allowed[n] })
	} else {
		wrapped = ocifilter.AccessChecker(backend.Funcs(), func(n string, k ocifilter.AccessKind) error {
			if n == "*" || allowed[n] {
				return nil
			}
			return &c12Deny{n, k}
		})
	}
	fp := "C12/" + c.Wrapper + "/Repositories/listing"
	var res opResult
	if r.Guard("list", fp, c, func() {
		res = callMethod(context.Background(), wrapped, "Repositories", opArgs{StartAfter: c.After, StopAfter: c.StopAfter})
	}) {
		return
	}
	// expected: backend items after the start point, cut at the injected error, filtered, cut at the stop
	src := filterAfter(c.Repos, c.After)
	var want []string
	wantErr := false
	for i, n := range src {
		if c.ErrAfter == i {
			wantErr = true
			break
		}
		if allowed[n] {
			want = append(want, n)
			if c.StopAfter > 0 && len(want) >= c.StopAfter {
				break
			}
		}
	}
	stopped := c.StopAfter > 0 && len(want) >= c.StopAfter
	if !wantErr && !stopped && c.ErrAfter >= len(src) {
		wantErr = true
	}
	if stopped {
		wantErr = false
	}
	if res.Out != strings.Join(want, ",") {
		r.Violate("list", fp+"/items-differ", c, strings.Join(want, ","), res.Out)
	}
	if wantErr != (res.Err != nil) {
		r.Violate("list", fp+"/error-differs", c, fmt.Sprintf("error=%v", wantErr), fmt.Sprintf("%v", res.Err))
	} else if wantErr && !errors.Is(res.Err, c12BackendErr) {
		r.Violate("list", fp+"/error-identity", c, c12BackendErr.Error(), res.Err.Error())
	}
	if res.Post != "" {
		r.Violate("list", fp+"/consumer-called-after-stop", c, "no calls after stop/error", res.Post)
	}
	r.Outcome(fmt.Sprintf("list items=%d err=%v", len(want), wantErr))
	// a backend may deliver the name it failed at together with its error: whatever name accompanies the
	// error the consumer sees has been through the policy like any other
	if c.ErrAfter >= 0 && c.StopAfter == 0 {
		b2 := newRecBackend()
		b2.Repos = c.Repos
		b2.ListErrAfter, b2.ListErr, b2.ListErrItem = c.ErrAfter, c12BackendErr, true
		var w2 ociregistry.Interface
		if c.Wrapper == "Select" {
			w2 = ocifilter.Select(b2.Funcs(), func(n string) bool { return allowed[n] })
		} else {
			w2 = ocifilter.AccessChecker(b2.Funcs(), func(n string, k ocifilter.AccessKind) error {
				if n == "*" || allowed[n] {
					return nil
				}
				return &c12Deny{n, k}
			})
		}
		r.Guard("list", fp+"/error-pair", c, func() {
			w2.Repositories(context.Background(), c.After)(func(name string, err error) bool {
				if err != nil && name != "" && !allowed[name] {
					r.Violate("list", fp+"/rejected-repository-delivered-with-the-error", c, "no rejected name reaches the consumer, with or without an error", fmt.Sprintf("%q, %v", name, err))
				}
				return err == nil
			})
		})
	}
}

func c12Check(r *vcore.Run) vcore.Coverage {
	invs := c12Invocations()
	var evals, nontrivial int64
	// (1) AccessChecker: all deny masks x all sequences of length 1 and 2
	nmask := 1 << c12Slots
	vcore.ParallelN(nmask, func(mi int) {
		mask := uint32(mi)
		var ev, nt int64
		for _, i1 := range invs {
			c := c12Case{Wrapper: "AccessChecker", Mask: mask, Denied: c12SlotNames(mask), Seq: []c12Inv{i1}}
			c12Run(r, "seq", c)
			ev++
			for _, i2 := range invs {
				c := c12Case{Wrapper: "AccessChecker", Mask: mask, Denied: c12SlotNames(mask), Seq: []c12Inv{i1, i2}}
				c12Run(r, "seq", c)
				ev++
				if mask != 0 && mask != uint32(nmask-1) {
					nt++
				}
				if !r.Thorough() {
					continue
				}
				for _, i3 := range invs {
					c := c12Case{Wrapper: "AccessChecker", Mask: mask, Denied: c12SlotNames(mask), Seq: []c12Inv{i1, i2, i3}}
					c12Run(r, "seq", c)
					ev++
					nt++
				}
			}
		}
		atomic.AddInt64(&evals, ev)
		atomic.AddInt64(&nontrivial, nt)
	})
	// (2) Select: all allow subsets of {a,b,c}
	names := []string{"a", "b", "c"}
	for sm := 0; sm < 8; sm++ {
		var allowed []string
		for i, n := range names {
			if sm&(1<<i) != 0 {
				allowed = append(allowed, n)
			}
		}
		for _, i1 := range invs {
			c12Run(r, "seq", c12Case{Wrapper: "Select", Seq: []c12Inv{i1}, Allowed: allowed})
			evals++
			for _, i2 := range invs {
				c12Run(r, "seq", c12Case{Wrapper: "Select", Seq: []c12Inv{i1, i2}, Allowed: allowed})
				evals++
				nontrivial++
			}
		}
	}
	// (2b) Select and the literal name "*" (which AccessChecker uses for "the catalogue as a whole"): a
	// caller that names a repository "*" names a repository the policy rejects
	for _, m := range allMethods {
		if m == "Repositories" {
			continue
		}
		star := []c12Inv{{M: m, Repo: "*"}}
		if m == "MountBlob" {
			star = []c12Inv{{M: m, Repo: "*", From: "a"}, {M: m, Repo: "a", From: "*"}}
		}
		// ... and the empty name (a mount request without a source, say) is a name like any other
		empty := []c12Inv{{M: m, Repo: ""}}
		if m == "MountBlob" {
			empty = []c12Inv{{M: m, Repo: "a", From: ""}, {M: m, Repo: "", From: "a"}}
		}
		for _, inv := range append(star, empty...) {
			for _, allowed := range [][]string{nil, {"a"}, {"a", "b", "c"}} {
				c12Run(r, "seq", c12Case{Wrapper: "Select", Seq: []c12Inv{inv}, Allowed: allowed})
				evals++
			}
		}
	}
	// (3) listings
	universe := []string{"a", "b", "b/c", "d", "e"}
	nu := len(universe)
	var lists []c12ListCase
	for rm := 0; rm < 1<<nu; rm++ {
		var repos []string
		for i, n := range universe {
			if rm&(1<<i) != 0 {
				repos = append(repos, n)
			}
		}
		for am := 0; am < 1<<nu; am++ {
			var allowed []string
			for i, n := range universe {
				if am&(1<<i) != 0 {
					allowed = append(allowed, n)
				}
			}
			afters := append([]string{"", "a0", "zz"}, repos...)
			if len(repos) > 0 {
				// a backend that repeats itself (a merged or paged upstream listing may): every occurrence of
				// a name goes through the policy, however often and wherever it occurs
				var twice, thrice []string
				for _, n := range repos {
					twice = append(twice, n, n)
					thrice = append(thrice, n, n, n)
				}
				for _, after := range afters {
					for _, w := range []string{"AccessChecker", "Select"} {
						lists = append(lists, c12ListCase{Wrapper: w, Repos: twice, Allowed: allowed, After: after, ErrAfter: -1},
							c12ListCase{Wrapper: w, Repos: thrice, Allowed: allowed, After: after, ErrAfter: -1})
					}
				}
			}
			for _, after := range afters {
				for stop := 0; stop <= len(repos)+1; stop++ {
					for ea := -1; ea <= len(repos); ea++ {
						for _, w := range []string{"AccessChecker", "Select"} {
							lists = append(lists, c12ListCase{Wrapper: w, Repos: repos, Allowed: allowed, After: after, StopAfter: stop, ErrAfter: ea})
						}
					}
				}
			}
		}
	}
	vcore.ParallelN(len(lists), func(i int) { c12RunList(r, lists[i]) })
	evals += int64(len(lists))
	nontrivial += int64(len(lists))
	// overlapping requests on one wrapper (needs the instrumented build)
	cexec, cpoints, ccomplete, cnotes := c12Concurrent(r)
	evals += cexec
	r.Notes["concurrent_overlap_harnesses"] = cnotes
	r.Notes["concurrent_schedules"] = cexec
	r.Notes["concurrent_scheduling_points"] = cpoints
	_ = ccomplete
	r.Sample("sequence", c12Case{Wrapper: "AccessChecker", Mask: 0b10, Denied: c12SlotNames(0b10), Seq: []c12Inv{{M: "GetBlob", Repo: "a"}, {M: "PushBlob", Repo: "a"}}})
	r.Sample("listing", c12ListCase{Wrapper: "Select", Repos: []string{"a", "b", "d"}, Allowed: []string{"a", "d"}, After: "a", StopAfter: 1, ErrAfter: -1})
	r.Assume = []string{
		"required access kind per method follows the documented mapping (Reader->read, Writer->write, Deleter->delete, Lister->list; mount = read(from)+write(to)); for repository-listing items a name must appear when allowed for both read and list and must not when denied for both",
		"policies are pure functions of (name, kind)",
	}
	return vcore.Coverage{Evaluations: evals, Nontrivial: nontrivial, Exhaustive: true,
		Rule: fmt.Sprintf("AccessChecker: all %d deny assignments over 9 (repository, kind) slots x all sequences of <= 2 (thorough: <= 3) of %d invocations on one wrapper instance; Select: all 8 allow sets x the same sequences; listings: all backend subsets x allowed subsets of a %d-name universe x start points x stop-after-k x backend-error-after-j; overlapping requests on one wrapper: 8 harnesses of 2-3 threads whose policy function is a scheduling point, all schedules, no backend call for the rejected repository; non-trivial = mixed allow/deny", nmask, len(invs), nu),
	}
}

func c12Replay(r *vcore.Run, sub string, raw json.RawMessage) {
	if sub == "sched" {
		var c c12ConcCase
		if json.Unmarshal(raw, &c) == nil {
			c12ConcReplay(r, c)
		}
		return
	}
	if sub == "list" {
		var c c12ListCase
		if json.Unmarshal(raw, &c) == nil {
			c12RunList(r, c)
		}
		return
	}
	var c c12Case
	if json.Unmarshal(raw, &c) == nil {
		c12Run(r, "seq", c)
	}
}
