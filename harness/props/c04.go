package props

import (
	"bytes"
	"context"
	"encoding/json"
	"errors"
	"fmt"
	"io"
	"net/http"
	"os"
	"strings"
	"sync/atomic"
	"time"

	"cuelabs.dev/go/oci/ociregistry"
	"cuelabs.dev/go/oci/ociregistry/ocimem"
	"cuelabs.dev/go/oci/ociregistry/ociunify"

	"verif/vcore"
	"verif/vstate"
)

// C04: chunked and resumable uploads commit exactly the bytes written.
// E2 over writer scripts: every composition of the content into writes x
// chunk-size hints x close-and-resume subsets x resume modes x one bad resume
// x right/wrong commit digest, on direct, HTTP (1 and 2 hops) and unified stacks.

func init() {
	vcore.Register(&vcore.Prop{ID: "C04", Level: "model_checking", Engine: "E2-state", Check: c04Check, Replay: c04Replay})
}

type c04Script struct {
	Stack    string `json:"stack"`
	MinChunk int    `json:"registry_min_chunk"` // what the backend's writers report as ChunkSize
	Hint     int    `json:"hint"`
	Pieces   []int  `json:"pieces"`            // lengths of the Write calls
	CloseAt  []bool `json:"close_before"`      // CloseAt[i]: close and resume before piece i (i >= 1)
	Mode     string `json:"resume_mode"`       // explicit, minus1, alternate
	BadAt    int    `json:"bad_resume_at"`     // boundary index at which a bad resume is tried first (-1 none)
	BadKind  string `json:"bad_kind"`          // plus1, minus1, zero
	BadVia   string `json:"bad_via,omitempty"` // how the mis-positioned data is flushed: "" = Close (PATCH), "commit" = Commit (PUT)
	Wrong    bool   `json:"commit_wrong_digest"`
	// WrongOf: which wrong digest is used: "" = of content nobody has, "present" = of a different blob
	// that is already in the same repository, "empty" = of the empty blob, present in the repository
	WrongOf string `json:"wrong_digest_of,omitempty"`
	// FailReq > 0: the FailReq-th upload data request (PATCH/PUT) of the script fails in the transport
	// before reaching the server; the caller retries the call that failed (Write: the unwritten rest)
	FailReq int `json:"transport_fault_at_data_request,omitempty"`
}

var errC04Injected = errors.New("injected transport failure before delivery")

// smallChunk wraps a registry so that its writers report a tiny minimum chunk size.
type smallChunk struct {
	ociregistry.Interface
	k int
}

type smallChunkWriter struct {
	ociregistry.BlobWriter
	k int
}

func (w smallChunkWriter) ChunkSize() int { return w.k }

func (s smallChunk) PushBlobChunked(ctx context.Context, repo string, chunk int) (ociregistry.BlobWriter, error) {
	w, err := s.Interface.PushBlobChunked(ctx, repo, chunk)
	if err != nil {
		return nil, err
	}
	return smallChunkWriter{w, s.k}, nil
}

func (s smallChunk) PushBlobChunkedResume(ctx context.Context, repo, id string, off int64, chunk int) (ociregistry.BlobWriter, error) {
	w, err := s.Interface.PushBlobChunkedResume(ctx, repo, id, off, chunk)
	if err != nil {
		return nil, err
	}
	return smallChunkWriter{w, s.k}, nil
}

func c04Backend(minChunk int) ociregistry.Interface {
	var b ociregistry.Interface = ocimem.New()
	if minChunk > 0 && minChunk != 8192 {
		b = smallChunk{b, minChunk}
	}
	return b
}

// c04LastTransport is the client-side transport of the most recent "http1" stack built by this goroutine's
// caller (returned through c04StackT).
func c04Stack(name string, minChunk int) ociregistry.Interface {
	reg, _ := c04StackT(name, minChunk)
	return reg
}

func c04StackT(name string, minChunk int) (ociregistry.Interface, *inprocTransport) {
	if name == "http1" {
		c, tr := httpStack(c04Backend(minChunk), nil, nil)
		if os.Getenv("C04_DEBUG") != "" {
			tr.Log = func(s string) { fmt.Println("  HTTP:", s) }
		}
		return c, tr
	}
	return c04StackPlain(name, minChunk), nil
}

func c04StackPlain(name string, minChunk int) ociregistry.Interface {
	switch name {
	case "mem":
		return c04Backend(minChunk)
	case "http2":
		inner, _ := httpStack(c04Backend(minChunk), nil, nil)
		c, _ := httpStack(inner, nil, nil)
		return c
	case "uni":
		return ociunify.New(c04Backend(minChunk), c04Backend(minChunk), nil)
	case "uni-http":
		a, _ := httpStack(c04Backend(minChunk), nil, nil)
		b, _ := httpStack(c04Backend(minChunk), nil, nil)
		return ociunify.New(a, b, &ociunify.Options{ReadPolicy: ociunify.ReadConcurrent})
	}
	panic("unknown stack " + name)
}

// c04Write writes from a scratch buffer and overwrites it as soon as Write has returned, as a caller
// that reuses its buffer does (io.Writer: "Write must not retain p").
func c04Write(w io.Writer, data []byte) (int, error) {
	scratch := append([]byte(nil), data...)
	n, err := w.Write(scratch)
	scribble(scratch)
	return n, err
}

func c04Content(n int) []byte {
	c := make([]byte, n)
	for i := range c {
		c[i] = byte(i + 1)
	}
	if n >= 3 {
		c[2] = 0 // a NUL inside
	}
	return c
}

func (sc c04Script) fpBase() string {
	mc := "min8192"
	if sc.MinChunk != 8192 {
		mc = "min-small"
	}
	if sc.FailReq > 0 {
		mc += "/after-transport-fault"
	}
	return fmt.Sprintf("C04/%s/%s", sc.Stack, mc)
}

func c04Run(r *vcore.Run, sc c04Script) (ops int64) {
	ctx := context.Background()
	reg, tr := c04StackT(sc.Stack, sc.MinChunk)
	faultFired, faultPending := false, false
	if sc.FailReq > 0 && tr != nil {
		k := 0
		tr.FailBefore = func(req *http.Request) error {
			if (req.Method == "PATCH" || req.Method == "PUT") && strings.Contains(req.URL.Path, "/blobs/uploads/") {
				k++
				if k == sc.FailReq {
					faultFired, faultPending = true, true
					return errC04Injected
				}
			}
			return nil
		}
	}
	n := 0
	for _, p := range sc.Pieces {
		n += p
	}
	content := c04Content(n)
	fp := sc.fpBase()
	viol := func(kind, exp, obs string) { r.Violate("script", fp+"/"+kind, sc, exp, obs) }
	r.Guard("script", fp, sc, func() {
		w, err := reg.PushBlobChunked(ctx, "r", sc.Hint)
		ops++
		if err != nil {
			viol("start-failed", "upload starts", err.Error())
			return
		}
		if w.Size() != 0 {
			viol("size", "Size()=0 on a new upload", fmt.Sprint(w.Size()))
		}
		off := 0
		resumes := 0
		for i, p := range sc.Pieces {
			if i > 0 && sc.CloseAt[i] {
				size := w.Size()
				if err := w.Close(); err != nil {
					if faultPending {
						r.Outcome("fault-in-close") // the unflushed chunk is gone with the writer: nothing further is promised
						return
					}
					viol("close-failed", "Close succeeds", err.Error())
					return
				}
				ops++
				id := w.ID()
				if size != int64(off) {
					viol("size", fmt.Sprintf("Size()=%d", off), fmt.Sprint(size))
				}
				if sc.BadAt == i {
					bad := size + 1
					switch sc.BadKind {
					case "minus1":
						bad = size - 1
					case "zero":
						bad = 0
					}
					wb, err := reg.PushBlobChunkedResume(ctx, "r", id, bad, sc.Hint)
					ops++
					if err == nil {
						piece := content[off : off+p]
						_, werr := c04Write(wb, piece)
						var cerr error
						switch {
						case werr != nil:
							// already refused (direct stacks, or a client flush forced by the write itself)
							wb.Close()
						case sc.BadVia == "commit":
							_, cerr = wb.Commit(sha256Digest(content[:off+p]))
						default:
							cerr = wb.Close()
						}
						ops += 2
						rerr := werr
						if rerr == nil {
							rerr = cerr
						}
						if rerr == nil {
							viol("bad-resume-accepted/"+sc.BadKind+sc.BadVia, "data at a wrong offset refused with a range-invalid error", fmt.Sprintf("write at offset %d accepted while the registry has %d bytes", bad, size))
							return
						} else if !errors.Is(rerr, ociregistry.ErrRangeInvalid) {
							viol("bad-resume-wrong-error/"+sc.BadKind+sc.BadVia, "errors.Is(err, ErrRangeInvalid) (HTTP 416)", rerr.Error())
						}
						// a second attempt on the same mis-positioned writer must be refused too (direct stacks keep the writer usable)
						if sc.Stack == "mem" || sc.Stack == "uni" {
							if _, werr2 := c04Write(wb, piece); werr2 == nil {
								viol("bad-resume-second-write-accepted/"+sc.BadKind, "still refused", "second write on the mis-positioned writer accepted")
								return
							}
							ops++
						}
					}
				}
				mode := sc.Mode
				if mode == "alternate" {
					mode = []string{"explicit", "minus1"}[resumes%2]
				}
				resumes++
				roff := size
				if mode == "minus1" {
					roff = -1
				}
				w, err = reg.PushBlobChunkedResume(ctx, "r", id, roff, sc.Hint)
				ops++
				if err != nil {
					viol("resume-failed/"+mode, "resume at the reported size succeeds", err.Error())
					return
				}
				if w.Size() != size {
					viol("resume-size/"+mode, fmt.Sprintf("Size()=%d after resume", size), fmt.Sprint(w.Size()))
					return
				}
			}
			nw, err := c04Write(w, content[off:off+p])
			ops++
			if err != nil && faultPending && nw >= 0 && nw <= p {
				// the caller retries what was not accepted
				faultPending = false
				nw2, err2 := c04Write(w, content[off+nw:off+p])
				ops++
				nw, err = nw+nw2, err2
			}
			if err != nil || nw != p {
				viol("write-failed", fmt.Sprintf("Write returns (%d, nil)", p), fmt.Sprintf("(%d, %v)", nw, err))
				return
			}
			off += p
			if w.Size() != int64(off) {
				viol("size", fmt.Sprintf("Size()=%d", off), fmt.Sprint(w.Size()))
			}
		}
		right := sha256Digest(content)
		other := append(append([]byte(nil), content...), 'X')
		if sc.WrongOf == "empty" {
			other = []byte{}
		}
		wrong := sha256Digest(other)
		if sc.Wrong && sc.WrongOf != "" {
			// the digest committed with belongs to other content that the repository already holds
			if _, err := reg.PushBlob(ctx, "r", descOf(mtOctet, other), bytes.NewReader(other)); err != nil {
				viol("prepush-failed", "PushBlob of the other content succeeds", err.Error())
				return
			}
		}
		get := func(d ociregistry.Digest) ([]byte, error) {
			rd, err := reg.GetBlob(ctx, "r", d)
			if err != nil {
				return nil, err
			}
			defer rd.Close()
			return io.ReadAll(rd)
		}
		if sc.Wrong {
			_, err := w.Commit(wrong)
			ops++
			if err == nil {
				viol("wrong-digest-commit-accepted"+map[string]string{"": "", "present": "/digest-of-a-present-blob", "empty": "/digest-of-the-present-empty-blob"}[sc.WrongOf], "commit with a wrong digest fails", "succeeded")
			}
			for _, d := range []ociregistry.Digest{right, wrong} {
				data, err := get(d)
				if d == wrong && sc.WrongOf != "" {
					// the other blob was there before and must still be itself
					if err != nil || string(data) != string(other) {
						viol("present-blob-damaged-by-failed-commit", fmt.Sprintf("%q still retrievable under its digest", other), fmt.Sprintf("%q, %v", data, err))
					}
					continue
				}
				if err == nil {
					viol("stored-after-failed-commit", "nothing stored", fmt.Sprintf("%q retrievable under %s", data, d))
				}
			}
			r.Outcome("wrong-digest-refused")
			return
		}
		desc, err := w.Commit(right)
		ops++
		if err != nil && faultPending {
			faultPending = false
			desc, err = w.Commit(right)
			ops++
		}
		if err != nil {
			viol("commit-failed", "commit with the matching digest succeeds", err.Error())
			return
		}
		if desc.Digest != right || desc.Size != int64(n) {
			viol("commit-descriptor", fmt.Sprintf("%s/%d", right, n), descText(desc))
		}
		data, err := get(right)
		ops++
		if err != nil {
			viol("not-retrievable", "GetBlob returns the concatenation of the written bytes", err.Error())
			return
		}
		if string(data) != string(content) {
			viol("content-differs", fmt.Sprintf("%q", content), fmt.Sprintf("%q", data))
		}
		if sc.FailReq > 0 && !faultFired {
			r.Outcome("fault-not-reached")
		}
		r.Outcome("committed")
	})
	return ops
}

func compositions(n int) [][]int {
	if n == 0 {
		return [][]int{{}, {0}}
	}
	var out [][]int
	for mask := 0; mask < 1<<(n-1); mask++ {
		var parts []int
		cur := 1
		for i := 0; i < n-1; i++ {
			if mask&(1<<i) != 0 {
				parts = append(parts, cur)
				cur = 1
			} else {
				cur++
			}
		}
		parts = append(parts, cur)
		out = append(out, parts)
	}
	// zero-length writes: one inserted at each position of each composition of small contents
	if n <= 3 {
		base := len(out)
		for _, parts := range out[:base] {
			for pos := 0; pos <= len(parts); pos++ {
				z := append(append(append([]int(nil), parts[:pos]...), 0), parts[pos:]...)
				out = append(out, z)
			}
		}
	}
	return out
}

func c04Scripts(thorough bool) []c04Script {
	maxN := 5
	hints := []int{0, 1, 3}
	stacks := []struct {
		name string
		min  []int
	}{{"mem", []int{8192}}, {"http1", []int{1, 2, 8192}}, {"uni", []int{8192}}}
	if thorough {
		maxN = 6
		hints = []int{-1, 0, 1, 2, 3, 5, 9}
		stacks = []struct {
			name string
			min  []int
		}{{"mem", []int{8192}}, {"http1", []int{1, 2, 3, 8192}}, {"http2", []int{1, 2, 8192}}, {"uni", []int{8192}}, {"uni-http", []int{2, 8192}}}
	}
	var out []c04Script
	for _, st := range stacks {
		for _, mc := range st.min {
			hs := hints
			if st.name == "mem" || st.name == "uni" {
				hs = []int{0, 2} // the hint does not matter without a buffering client
			}
			for _, hint := range hs {
				for n := 0; n <= maxN; n++ {
					for _, pieces := range compositions(n) {
						p := len(pieces)
						nb := 0
						if p > 1 {
							nb = p - 1
						}
						for cm := 0; cm < 1<<nb; cm++ {
							closeAt := make([]bool, p)
							nclose := 0
							for i := 1; i < p; i++ {
								if cm&(1<<(i-1)) != 0 {
									closeAt[i] = true
									nclose++
								}
							}
							modes := []string{"explicit"}
							if nclose > 0 {
								modes = []string{"explicit", "minus1", "alternate"}
							}
							for _, mode := range modes {
								// exclusion stated in the property: resume with -1 when exactly one byte has been received
								skip := false
								off, res := 0, 0
								for i := 0; i < p; i++ {
									if i > 0 && closeAt[i] {
										m := mode
										if m == "alternate" {
											m = []string{"explicit", "minus1"}[res%2]
										}
										res++
										if m == "minus1" && off == 1 {
											skip = true
										}
									}
									off += pieces[i]
								}
								if skip {
									continue
								}
								base := c04Script{Stack: st.name, MinChunk: mc, Hint: hint, Pieces: pieces, CloseAt: closeAt, Mode: mode, BadAt: -1}
								out = append(out, base)
								if st.name == "http1" {
									for k := 1; k <= 3; k++ {
										f := base
										f.FailReq = k
										out = append(out, f)
									}
								}
								w := base
								w.Wrong = true
								out = append(out, w)
								w.WrongOf = "present"
								out = append(out, w)
								if n > 0 {
									w.WrongOf = "empty"
									out = append(out, w)
								}
								for i := 1; i < p; i++ {
									if !closeAt[i] || pieces[i] == 0 {
										continue // an empty write sends no data, so nothing is sent at a wrong offset
									}
									for _, kind := range []string{"plus1", "minus1", "zero"} {
										off := 0
										for j := 0; j < i; j++ {
											off += pieces[j]
										}
										if (kind == "minus1" || kind == "zero") && off == 0 {
											continue
										}
										if kind == "zero" && off == 1 && pieces[i] == 0 {
											continue
										}
										if kind == "minus1" && off == 1 {
											continue // offset 0 == "zero" kind
										}
										b := base
										b.BadAt, b.BadKind = i, kind
										out = append(out, b)
										b.BadVia = "commit"
										out = append(out, b)
									}
								}
							}
						}
					}
				}
			}
		}
	}
	// second family: the real ocimem minimum (8192) with write sizes around it
	sizes := []int{1, 8191, 8192, 8193}
	if thorough {
		sizes = []int{0, 1, 8191, 8192, 8193, 16384}
	}
	for _, stack := range []string{"mem", "http1", "http2"} {
		if stack == "http2" && !thorough {
			continue
		}
		for _, hint := range []int{0, 1, 8192, 10000} {
			for _, a := range sizes {
				for _, b := range sizes {
					for _, cl := range []bool{false, true} {
						sc := c04Script{Stack: stack, MinChunk: 8192, Hint: hint, Pieces: []int{a, b}, CloseAt: []bool{false, cl}, Mode: "explicit", BadAt: -1}
						if cl && a == 1 {
							sc.Mode = "explicit"
						}
						out = append(out, sc)
						if cl && a != 1 {
							sc.Mode = "minus1"
							out = append(out, sc)
						}
					}
				}
			}
		}
	}
	return out
}

func c04Check(r *vcore.Run) vcore.Coverage {
	scripts := c04Scripts(r.Thorough())
	var ops int64
	vcore.ParallelN(len(scripts), func(i int) {
		atomic.AddInt64(&ops, c04Run(r, scripts[i]))
	})
	var nontrivial int64
	for _, s := range scripts {
		if len(s.Pieces) > 1 {
			nontrivial++
		}
	}
	// second part: two writer values alive on one session of the in-memory registry, used in every order
	// (explicit-state search to the fixpoint; every transition checked against the reference model)
	u := newUniverse()
	hcfg := alphabetConfig{Repos: []string{"r"}, Chunked: true, MaxUploads: 1, MaxUpload: 3, TwoHandles: true, FinishedOps: true}
	hst := vstate.BFS(vstate.Spec[Op]{
		New: func() vstate.System[Op] {
			s := newMemSys(r, "C04", u, hcfg, false)
			s.sub = "handles"
			s.queries = sweepQueries(u, []string{"r"})
			return s
		},
		MaxDepth: 30, Deadline: 5 * time.Minute,
	})
	r.Notes["two_writer_values"] = map[string]any{"states": hst.States, "transitions": hst.Transitions, "fixpoint": hst.Fixpoint, "completed_depth": hst.Depth, "cap_hit": hst.CapHit}
	// third part: two uploads alive at once after an earlier one was finished (sequentially: the client keeps
	// process-wide state between writers, so the cases of one stack run in order)
	pairs := c04PairCases(r.Thorough())
	for _, pc := range pairs {
		c04PairRun(r, pc)
	}
	r.Sample("script", scripts[len(scripts)/3])
	r.Sample("script-bad-resume", func() c04Script {
		for _, s := range scripts {
			if s.BadAt > 0 && s.Stack == "http1" {
				return s
			}
		}
		return scripts[0]
	}())
	r.Assume = []string{
		"a thin harness-side wrapper makes ocimem's writers report ChunkSize 1..3 so that the client's flush logic is exercised with tiny data; the second family uses the real 8192 minimum",
		"resume with offset -1 when exactly one byte has been received is excluded, as the property states",
		"over HTTP a refused write surfaces at the flush (Write or Close), since the client buffers",
		"in-process transport (see C03's binding run against a real loopback server)",
	}
	ops += int64(len(pairs))
	return vcore.Coverage{States: int64(len(scripts)) + hst.States, Transitions: ops + hst.Transitions, TracesImpl: int64(len(scripts)) + hst.Transitions, Evaluations: int64(len(scripts)) + hst.Transitions, Nontrivial: nontrivial + hst.States, Exhaustive: hst.CapHit == "",
		Rule: "every composition of an n-byte content (n <= 4 quick / 6 thorough) into Write calls x chunk-size hints x every subset of write boundaries closed-and-resumed x resume modes {explicit, -1, alternating} x one bad resume (offset +1, -1, 0) at each boundary x one transport failure before delivery at the k-th data request (k <= 3, first hop; the failed Write/Commit is retried) x right/wrong commit digest (wrong = of absent content, of a different blob present in the repository, of the present empty blob) x stacks {mem, client->server->mem with registry minimum 1,2,3,8192, two hops, ociunify, ociunify over HTTP}; plus write sizes around the real 8192 minimum; plus, on the in-memory registry, every history (to the fixpoint) of one session of <= 3 bytes held through two writer values at once (start, write, resume at size/-1/0/wrong offset into either value, commit right/wrong, cancel, use after finish), each step checked against the reference model with its per-writer start offset; plus two uploads alive at once on one stack after an earlier upload was finished (commit+close, commit, cancel, close), their writes alternating, every pair of compositions of <= 3 bytes x hints {0,1,3} x stacks: each commits as exactly its own bytes; states = scripts + history states, transitions = writer operations; non-trivial = more than one Write"}
}

func c04Replay(r *vcore.Run, sub string, raw json.RawMessage) {
	if sub == "pair" {
		var c c04PairCase
		if json.Unmarshal(raw, &c) == nil {
			// the cases that ran before it in the same process, unjudged
			quiet := vcore.NewRun("C04", "quick", "model_checking", "replay-prefix")
			for _, pc := range c04PairCases(c.Thorough) {
				if pc.Index >= c.Index {
					break
				}
				c04PairRun(quiet, pc)
			}
			c04PairRun(r, c)
		}
		return
	}
	if sub == "handles" {
		var c c02Case
		if json.Unmarshal(raw, &c) != nil {
			return
		}
		u := newUniverse()
		s := newMemSys(r, "C04", u, alphabetConfig{Repos: []string{"r"}, Chunked: true, MaxUploads: 1, MaxUpload: 3, TwoHandles: true, FinishedOps: true}, false)
		s.sub = "handles"
		s.queries = sweepQueries(u, []string{"r"})
		for _, op := range c.History {
			if s.Apply(op, true) {
				return
			}
		}
		return
	}
	var sc c04Script
	if json.Unmarshal(raw, &sc) == nil {
		c04Run(r, sc)
	}
}
