package props

import (
	"context"
	"encoding/json"
	"errors"
	"fmt"
	"io"
	"strings"
	"sync/atomic"
	"time"

	"cuelabs.dev/go/oci/ociregistry"
	"cuelabs.dev/go/oci/ociregistry/ocimem"
	"cuelabs.dev/go/oci/ociregistry/ociunify"

	"verif/vcore"
	"verif/vstate"
)

// C15: the unified registry is the union view and replicates every write.

func init() {
	vcore.Register(&vcore.Prop{ID: "C15", Level: "model_checking", Engine: "E2-state", Check: c15Check, Replay: c15Replay})
}

// ---- (i) read side: all pairs of member states ----

// a member state is described by the operations that build it
type c15Member struct {
	Ops []Op `json:"ops"`
}

func c15MemberStates(u *universe) []c15Member {
	// blobs subset of {b1,b2} x manifests subset of {mo, mis(subject mo)} x tag t -> none|mo|mis ; plus the empty member
	var out []c15Member
	for bm := 0; bm < 4; bm++ {
		for mm := 0; mm < 4; mm++ {
			for tag := 0; tag < 3; tag++ {
				var ops []Op
				if bm&1 != 0 {
					ops = append(ops, Op{K: "PushBlob", Repo: "r", B: 1})
				}
				if bm&2 != 0 {
					ops = append(ops, Op{K: "PushBlob", Repo: "r", B: 2})
				}
				hasMo, hasMis := mm&1 != 0, mm&2 != 0 && bm&1 != 0 // mis needs b1 as its config
				if mm&2 != 0 && !hasMis {
					continue
				}
				if tag == 1 && !hasMo || tag == 2 && !hasMis {
					continue
				}
				if hasMo {
					op := Op{K: "PushManifest", Repo: "r", M: 0}
					if tag == 1 {
						op.Tag = "t"
					}
					ops = append(ops, op)
				}
				if hasMis {
					op := Op{K: "PushManifest", Repo: "r", M: 2}
					if tag == 2 {
						op.Tag = "t"
					}
					ops = append(ops, op)
				}
				out = append(out, c15Member{Ops: ops})
			}
		}
	}
	// a member that holds the bytes of the image mi under another media type, tagged t (populated
	// independently of a member that holds mi itself: same digest, descriptors differing in media type)
	out = append(out, c15Member{Ops: []Op{{K: "PushManifest", Repo: "r", M: 8, Tag: "t"}}})
	out = append(out, c15Member{Ops: []Op{{K: "PushBlob", Repo: "r", B: 1}, {K: "PushBlob", Repo: "r", B: 2}, {K: "PushManifest", Repo: "r", M: 1, Tag: "t"}}})
	// a member that knows another repository only
	out = append(out, c15Member{Ops: []Op{{K: "PushBlob", Repo: "s", B: 1}, {K: "PushManifest", Repo: "s", M: 0, Tag: "u"}}})
	return out
}

func c15Build(u *universe, m c15Member) (*ocimem.Registry, *Model) {
	reg := ocimem.New()
	s := &regSys{u: u, reg: reg, model: NewModel(false), ctx: context.Background()}
	for _, op := range m.Ops {
		out := s.exec(op)
		if !out.OK {
			panic("c15: building member state failed: " + op.String() + ": " + out.Err)
		}
		s.model.Advance(u, op, true)
	}
	return reg, s.model
}

type c15PairCase struct {
	M0     []string `json:"member0"`
	M1     []string `json:"member1"`
	I0     int      `json:"i0"`
	I1     int      `json:"i1"`
	Policy string   `json:"policy"`
}

// unionModel merges two member models; conflicting tags are reported separately.
func c15Union(a, b *Model) (*Model, map[string]bool) {
	un := a.Clone()
	un.AnyFailCode = true
	conflicts := map[string]bool{}
	for name, rb := range b.Repos {
		ru := un.repo(name, true)
		for d, x := range rb.Blobs {
			if ru.Blobs[d] == nil {
				c := *x
				ru.Blobs[d] = &c
			}
		}
		for d, x := range rb.Mans {
			if ru.Mans[d] == nil {
				c := *x
				ru.Mans[d] = &c
			}
		}
		for t, d := range rb.Tags {
			if cur, ok := ru.Tags[t]; ok && cur.Digest != d.Digest {
				conflicts[name+"/"+t] = true
			} else {
				ru.Tags[t] = d
			}
		}
	}
	return un, conflicts
}

func c15CheckPair(r *vcore.Run, u *universe, states []c15Member, i0, i1 int) {
	m0, mod0 := c15Build(u, states[i0])
	m1, mod1 := c15Build(u, states[i1])
	un, conflicts := c15Union(mod0, mod1)
	queries := sweepQueries(u, []string{"r", "s"})
	// the same manifest held by both members under different media types: which member's descriptor
	// comes back is unspecified (the statement speaks of digests); such answers are read as the union
	// model's media type. What stays required: the read succeeds, with the right digest and bytes.
	eitherMT := map[string][2]string{}
	for name, r0 := range mod0.Repos {
		if r1 := mod1.Repos[name]; r1 != nil {
			for d, x := range r0.Mans {
				if y := r1.Mans[d]; y != nil && y.MT != x.MT {
					eitherMT[name+"|"+string(d)] = [2]string{x.MT, y.MT}
				}
			}
		}
	}
	var texts [2]string
	for pi, pol := range []ociunify.ReadPolicy{ociunify.ReadSequential, ociunify.ReadConcurrent} {
		pname := []string{"sequential", "concurrent"}[pi]
		c := c15PairCase{M0: opsText(states[i0].Ops), M1: opsText(states[i1].Ops), I0: i0, I1: i1, Policy: pname}
		// members whose readers refuse to be read once closed (as readers over HTTP do)
		reg := ociunify.New(strictMember{m0}, strictMember{m1}, &ociunify.Options{ReadPolicy: pol})
		var obs []Obs
		if r.Guard("pair", "C15/read/"+pname, c, func() {
			for _, q := range queries {
				o := runQuery(context.Background(), reg, q)
				if mts, ok := eitherMT[q.Repo+"|"+string(o.Desc.Digest)]; ok && o.OK && (o.Desc.MediaType == mts[0] || o.Desc.MediaType == mts[1]) {
					o.Desc.MediaType = mts[0]
				}
				obs = append(obs, o)
				if (q.K == "GetTag" || q.K == "ResolveTag") && conflicts[q.Repo+"/"+q.Tag] {
					if o.OK {
						r.Violate("pair", "C15/read/"+q.K+"/conflicting-tag-silently-resolved/"+pname, c, "failure when the members disagree on a tag", o.Text())
					}
					continue
				}
				if q.K == "Tags" {
					// a conflicting tag still appears once in the union listing
				}
				if mism := un.CheckObs(u, o); mism != "" {
					r.Violate("pair", fmt.Sprintf("C15/read/%s/%s/%s", q.K, fpClass(mism), pname), c, "union of the two members", q.String()+": "+mism)
				}
			}
		}) {
			return
		}
		texts[pi] = c15NormText(obs)
	}
	if texts[0] != texts[1] {
		c := c15PairCase{M0: opsText(states[i0].Ops), M1: opsText(states[i1].Ops), I0: i0, I1: i1, Policy: "both"}
		r.Violate("pair", "C15/read/policies-disagree", c, "sequential and concurrent read policies give the same results", firstDiff(texts[0], texts[1]))
	}
	r.Outcome(fmt.Sprintf("conflicts=%d", len(conflicts)))
}

// c15NormText renders a sweep without error codes (which member's error surfaces is unspecified).
func c15NormText(obs []Obs) string {
	var sb strings.Builder
	for _, o := range obs {
		if !o.OK {
			fmt.Fprintf(&sb, "%s -> FAIL items=%v\n", o.Q, o.Items)
		} else {
			sb.WriteString(o.Text() + "\n")
		}
	}
	return sb.String()
}

// ---- (ii) write side: histories through the unifier over equal members ----

// faultyMember fails the k-th mutating call (k counted over PushBlob,
// PushManifest, MountBlob, Delete*, Commit) with an injected error.
type faultyMember struct {
	ociregistry.Interface
	failAt int
	n      *int
}

var errC15Injected = errors.New("injected single-member failure")

func (f faultyMember) hit() bool {
	*f.n++
	return *f.n == f.failAt
}

func (f faultyMember) PushBlob(ctx context.Context, repo string, desc ociregistry.Descriptor, r io.Reader) (ociregistry.Descriptor, error) {
	if f.hit() {
		io.Copy(io.Discard, r)
		return ociregistry.Descriptor{}, errC15Injected
	}
	return f.Interface.PushBlob(ctx, repo, desc, r)
}
func (f faultyMember) PushManifest(ctx context.Context, repo, tag string, data []byte, mt string) (ociregistry.Descriptor, error) {
	if f.hit() {
		return ociregistry.Descriptor{}, errC15Injected
	}
	return f.Interface.PushManifest(ctx, repo, tag, data, mt)
}
func (f faultyMember) MountBlob(ctx context.Context, from, to string, d ociregistry.Digest) (ociregistry.Descriptor, error) {
	if f.hit() {
		return ociregistry.Descriptor{}, errC15Injected
	}
	return f.Interface.MountBlob(ctx, from, to, d)
}
func (f faultyMember) DeleteBlob(ctx context.Context, repo string, d ociregistry.Digest) error {
	if f.hit() {
		return errC15Injected
	}
	return f.Interface.DeleteBlob(ctx, repo, d)
}
func (f faultyMember) DeleteManifest(ctx context.Context, repo string, d ociregistry.Digest) error {
	if f.hit() {
		return errC15Injected
	}
	return f.Interface.DeleteManifest(ctx, repo, d)
}
func (f faultyMember) DeleteTag(ctx context.Context, repo string, t string) error {
	if f.hit() {
		return errC15Injected
	}
	return f.Interface.DeleteTag(ctx, repo, t)
}

func c15Config(u *universe) alphabetConfig {
	return alphabetConfig{Repos: u.Repos, BadRepo: true, Chunked: true, MaxUploads: 1, MaxUpload: 3,
		Manifests: []int{0, 1, 2}, Blobs: []int{1, 2}, Deletes: true, Mounts: true, BadPushes: true, UntaggedToo: true, Tags: []string{"t"}, ReadsOp: true, SelfMounts: true}
}

func c15MemberDump(m *ocimem.Registry) string {
	d := vstate.NewDumper()
	d.AutoIDs = true
	d.Add("reg", m)
	return d.String()
}

func newUnifySys(r *vcore.Run, u *universe, cfg alphabetConfig, pol ociunify.ReadPolicy, failAt int, failMember int) *regSys {
	return newUnifySysOrdered(r, u, cfg, pol, failAt, failMember, -1)
}

// firstMember >= 0 forces that member to answer first on every operation sent to both.
func newUnifySysOrdered(r *vcore.Run, u *universe, cfg alphabetConfig, pol ociunify.ReadPolicy, failAt int, failMember int, firstMember int) *regSys {
	m0, m1 := ocimem.New(), ocimem.New()
	var i0, i1 ociregistry.Interface = m0, m1
	if firstMember == -2 {
		// members whose upload IDs change with every write (see genIDMember)
		g0 := newGenIDMember(m0)
		g0.pad = "~state=" + strings.Repeat("0123456789abcdef", 19) // member 0's IDs are 300+ bytes long
		i0, i1 = g0, newGenIDMember(m1)
	}
	var gate *orderGate
	if firstMember >= 0 {
		g := newOrderGate()
		gate = g
		i0 = &gatedMember{Interface: m0, g: g, late: firstMember != 0}
		i1 = &gatedMember{Interface: m1, g: g, late: firstMember != 1}
	}
	injected := new(int)
	if failAt > 0 {
		if failMember == 0 {
			i0 = faultyMember{Interface: m0, failAt: failAt, n: injected}
		} else {
			i1 = faultyMember{Interface: m1, failAt: failAt, n: injected}
		}
	}
	pname := []string{"sequential", "concurrent"}[pol]
	s := &regSys{r: r, prop: "C15", mode: "unify-" + pname, sub: "history", u: u, cfg: cfg, static: u.staticOps(cfg),
		reg: ociunify.New(i0, i1, &ociunify.Options{ReadPolicy: pol}), raw: []*ocimem.Registry{m0, m1},
		model: NewModel(false), queries: sweepQueries(u, append(append([]string(nil), u.Repos...), "q")), ctx: context.Background()}
	if failAt > 0 {
		s.mode += fmt.Sprintf("/member%d-fails-call-%d", failMember, failAt)
		s.noOracle = true
	}
	if firstMember >= 0 {
		s.mode += fmt.Sprintf("/member%d-answers-first", firstMember)
	}
	if firstMember == -2 {
		s.mode += "/changing-upload-ids"
	}
	diverged := false
	after := 0 // operations applied after the call during which one member failed
	s.extraKey = func() string { return fmt.Sprint(*injected >= failAt && failAt > 0, after) }
	s.opFilter = func(op Op) bool {
		if !diverged {
			return true
		}
		// after the failure only writes are of interest (their success must mean "applied to both")
		switch op.K {
		case "PushBlob", "PushManifest", "Mount", "Commit", "Write":
			return true
		}
		return false
	}
	s.onStep = func(s *regSys, op Op, out Outcome, check bool) (tainted bool) {
		if failAt > 0 {
			if diverged {
				// The members legitimately differ now. What still holds: a write reports success only if
				// it was applied to both members (e.g. the retry of the call that failed half-way).
				after++
				if check && out.OK {
					for mi, m := range []*ocimem.Registry{m0, m1} {
						if miss := c15EffectMissing(s, m, op); miss != "" {
							s.r.Violate("history", fmt.Sprintf("C15/%s/success-but-not-applied-to-both-members/after-single-member-failure", op.K), s.caseOf(nil),
								"a successful write is present in both members", fmt.Sprintf("member %d: %s", mi, miss))
							return true
						}
					}
				}
				return after >= c15AfterFailure
			}
			if *injected >= failAt && !diverged {
				// this is the call during which one member failed
				diverged = true
				if out.OK && check {
					s.r.Violate("history", fmt.Sprintf("C15/%s/success-although-one-member-failed", op.K), s.caseOf(nil), "failure when only one member succeeded", op.String()+" reported success")
					return true
				}
				return false // expanded further only to look at retries (see above)
			}
			if !check {
				return false
			}
			if s.depth > failAt {
				tainted = true // too deep for a failure followed by a retry: same states as the failure-free run
			}
		}
		if gate != nil {
			gate.mu.Lock()
			broken := gate.broken
			gate.broken = ""
			gate.mu.Unlock()
			if broken != "" {
				s.r.Violate("history", fmt.Sprintf("C15/%s/member-calls-out-of-step", op.K), s.caseOf(nil), "every operation sent to both members reaches both before the unifier moves on", broken)
				return true
			}
		}
		if !check {
			return false
		}
		// members that started equal stay observably equal (and bit-identical up to upload IDs)
		var t0, t1 []Obs
		for _, q := range s.queries {
			t0 = append(t0, runQuery(s.ctx, m0, q))
			t1 = append(t1, runQuery(s.ctx, m1, q))
		}
		if a, b := sweepText(t0), sweepText(t1); a != b {
			s.r.Violate("history", fmt.Sprintf("C15/%s/members-diverge-observably/after-%s", s.mode, op.K), s.caseOf(nil), "equal read sweeps of both members", firstDiff(a, b))
			tainted = true
		} else if a, b := c15MemberDump(m0), c15MemberDump(m1); a != b {
			s.r.Violate("history", fmt.Sprintf("C15/%s/members-diverge-internally/after-%s", s.mode, op.K), s.caseOf(nil), "equal member states (upload sessions by creation order, size and bytes)", firstDiff(a, b))
			tainted = true
		}
		return tainted
	}
	return s
}

// c15AfterFailure is the number of operations explored after a single-member failure.
var c15AfterFailure = 1

// c15EffectMissing reports what a successful write left out of member m ("" = nothing).
func c15EffectMissing(s *regSys, m *ocimem.Registry, op Op) string {
	ctx := context.Background()
	switch op.K {
	case "PushBlob":
		if op.Bad != "" {
			return ""
		}
		if _, err := m.ResolveBlob(ctx, op.Repo, sha256Digest(s.u.Blobs[op.B])); err != nil {
			return "blob missing: " + err.Error()
		}
	case "Mount":
		if _, err := m.ResolveBlob(ctx, op.Repo, sha256Digest(s.u.Blobs[op.B])); err != nil {
			return "mounted blob missing: " + err.Error()
		}
	case "PushManifest":
		dig := sha256Digest(s.u.Manifests[op.M].Data)
		if _, err := m.ResolveManifest(ctx, op.Repo, dig); err != nil {
			return "manifest missing: " + err.Error()
		}
		if op.Tag != "" {
			if d, err := m.ResolveTag(ctx, op.Repo, op.Tag); err != nil || d.Digest != dig {
				return fmt.Sprintf("tag %s does not point at the pushed manifest: %v %v", op.Tag, d.Digest, err)
			}
		}
	}
	return ""
}

func c15Check(r *vcore.Run) vcore.Coverage {
	u := newUniverse()
	states := c15MemberStates(u)
	n := len(states)
	var pairs int64
	vcore.ParallelN(n*n, func(k int) {
		c15CheckPair(r, u, states, k/n, k%n)
		atomic.AddInt64(&pairs, 1)
	})
	refCases := c15CheckReferrers(r, u)
	pairs += refCases
	r.Notes["referrers_arrangements"] = refCases
	var stTotal, trTotal int64
	var notes []map[string]any
	exhaustive := true
	run := func(name string, mk func() vstate.System[Op], depth int) {
		st := vstate.BFS(vstate.Spec[Op]{New: mk, MaxDepth: depth, Deadline: 10 * time.Minute, MaxStates: 300000, Seeds: [][]Op{
			{{K: "PushBlob", Repo: "r", B: 1}, {K: "PushBlob", Repo: "r", B: 2}, {K: "PushManifest", Repo: "r", M: 1, Tag: "t"}},
			{{K: "PushBlob", Repo: "r", B: 1}, {K: "Start", Repo: "r"}, {K: "Write", H: 0, Piece: "a"}},
		}})
		stTotal += st.States
		trTotal += st.Transitions
		if st.CapHit != "" {
			exhaustive = false
		}
		notes = append(notes, map[string]any{"run": name, "max_depth": depth, "completed_depth": st.Depth, "states": st.States, "transitions": st.Transitions, "cap_hit": st.CapHit, "per_depth_new_states": st.PerDepth})
		for _, h := range st.Samples {
			r.Sample(name, opsText(h))
		}
	}
	depth := 2
	if r.Thorough() {
		depth = 3
		c15AfterFailure = 2
	}
	cfg := c15Config(u)
	run("write/concurrent-policy", func() vstate.System[Op] { return newUnifySys(r, u, cfg, ociunify.ReadConcurrent, 0, 0) }, depth)
	run("write/sequential-policy", func() vstate.System[Op] { return newUnifySys(r, u, cfg, ociunify.ReadSequential, 0, 0) }, depth)
	for first := 0; first < 2; first++ {
		first := first
		run(fmt.Sprintf("write/member%d-answers-first", first), func() vstate.System[Op] { return newUnifySysOrdered(r, u, cfg, ociunify.ReadConcurrent, 0, 0, first) }, depth)
	}
	run("write/changing-upload-ids", func() vstate.System[Op] { return newUnifySysOrdered(r, u, cfg, ociunify.ReadSequential, 0, 0, -2) }, depth)
	for k := 1; k <= 3; k++ {
		for mbr := 0; mbr < 2; mbr++ {
			k, mbr := k, mbr
			run(fmt.Sprintf("write/member%d-fails-call-%d", mbr, k), func() vstate.System[Op] { return newUnifySys(r, u, cfg, ociunify.ReadConcurrent, k, mbr) }, k+1+c15AfterFailure)
		}
	}
	r.Notes["member_states"] = n
	r.Notes["member_state_pairs"] = pairs
	r.Notes["runs"] = notes
	r.Sample("member-pair", c15PairCase{M0: opsText(states[3].Ops), M1: opsText(states[n-1].Ops), Policy: "concurrent"})
	r.Assume = []string{
		"content-addressed data present in both members has the same media type in both (otherwise 'first successful answer' is legitimately order dependent)",
		"read side: union model = per-repository union of blobs and manifests; a tag resolves iff the members agree or only one has it",
		"write side: the unifier over two initially equal ocimem members is compared with the reference registry model; members must stay bit-identical up to upload IDs",
		"the concurrent read policy runs free here (its schedule space is explored exhaustively in C16)",
	}
	return vcore.Coverage{States: stTotal + pairs, Transitions: trTotal + 2*pairs*int64(len(sweepQueries(u, []string{"r", "s"}))), TracesImpl: trTotal, Evaluations: trTotal + pairs, Nontrivial: stTotal + pairs, Exhaustive: exhaustive,
		Rule: fmt.Sprintf("read side: all %d x %d ordered pairs of member states x every read/list query x both read policies against the union model and against each other; Referrers: all 8 x 8 subsets of three referrers of one subject x member delivery orders {ascending, descending, rotated} x both policies (union complete, duplicate-free, sorted); write side: BFS over histories through ociunify over two equal ocimem members (reference-model oracle + members bit-identical after every transition) and with a single-member failure injected at the k-th mutating call (k <= 3, either member), followed by every further operation (thorough: two) to check that a successful write - e.g. the retry - reached both members; non-trivial = distinct states + pairs", n, n)}
}

func c15Replay(r *vcore.Run, sub string, raw json.RawMessage) {
	u := newUniverse()
	if sub == "referrers" {
		c15CheckReferrers(r, u)
		return
	}
	if sub == "pair" {
		var c c15PairCase
		if json.Unmarshal(raw, &c) == nil {
			c15CheckPair(r, u, c15MemberStates(u), c.I0, c.I1)
		}
		return
	}
	var c c02Case
	if err := json.Unmarshal(raw, &c); err != nil {
		return
	}
	pol := ociunify.ReadConcurrent
	if strings.Contains(c.Mode, "sequential") {
		pol = ociunify.ReadSequential
	}
	failAt, failMember := 0, 0
	if i := strings.Index(c.Mode, "/member"); i >= 0 {
		fmt.Sscanf(c.Mode[i:], "/member%d-fails-call-%d", &failMember, &failAt)
	}
	first := -1
	if strings.Contains(c.Mode, "/changing-upload-ids") {
		first = -2
	}
	if i := strings.Index(c.Mode, "-answers-first"); i > 0 {
		first = int(c.Mode[i-1] - '0')
	}
	s := newUnifySysOrdered(r, u, c15Config(u), pol, failAt, failMember, first)
	for _, op := range c.History {
		if s.Apply(op, true) {
			return
		}
	}
}
