package props

import (
	"bytes"
	"context"
	"crypto/sha512"
	"encoding/json"
	"fmt"
	"net/http"
	"net/http/httptest"
	"reflect"
	"sort"
	"strings"
	"time"

	"cuelabs.dev/go/oci/ociregistry"
	"cuelabs.dev/go/oci/ociregistry/ociclient"
	"cuelabs.dev/go/oci/ociregistry/ocidebug"
	"cuelabs.dev/go/oci/ociregistry/ocimem"
	"cuelabs.dev/go/oci/ociregistry/ociserver"

	"verif/vcore"
	"verif/vstate"
)

// C03: the HTTP client+server are transparent. E2 differential: the same
// histories are applied in lock-step to ocimem directly and to a stack
// client -> server (-> client -> server) -> ocimem; plus a recording backend
// for argument fidelity; plus a binding run of the in-process transport
// against a real loopback server.

func init() {
	vcore.Register(&vcore.Prop{ID: "C03", Level: "model_checking", Engine: "E2-state", Check: c03Check, Replay: c03Replay})
}

// detIDs makes upload IDs deterministic (u1, u2, ... in creation order) so
// that states reached by different histories are comparable. ocimem accepts a
// caller-chosen ID in PushBlobChunkedResume; only newUUID is bypassed.
type detIDs struct {
	*ocimem.Registry
	n *int
}

func (d detIDs) PushBlobChunked(ctx context.Context, repo string, chunk int) (ociregistry.BlobWriter, error) {
	*d.n++
	return d.Registry.PushBlobChunkedResume(ctx, repo, fmt.Sprintf("u%d", *d.n), 0, chunk)
}

type c03Config struct {
	Stack    string `json:"stack"` // http1, dbg, http2
	Opts     string `json:"server_options"`
	ListPage int    `json:"client_list_page_size"`
	Names    int    `json:"name_set"`
	MinChunk int    `json:"registry_min_chunk,omitempty"` // >0: the backend's writers report this tiny minimum chunk size (client flush logic with small data)
	Loopback bool   `json:"loopback,omitempty"`
}

func c03ServerOpts(name string) *ociserver.Options {
	o := &ociserver.Options{}
	if strings.Contains(name, "omitdigest") || name == "all" {
		o.OmitDigestFromTagGetResponse = true
	}
	if strings.Contains(name, "omitlink") || name == "all" {
		o.OmitLinkHeaderFromResponses = true
	}
	if strings.Contains(name, "maxpage") || name == "all" {
		o.MaxListPageSize = 2
	}
	if strings.Contains(name, "nosinglepost") || name == "all" {
		o.DisableSinglePostUpload = true
	}
	return o
}

var c03NameSets = []struct{ repos, tags []string }{
	{[]string{"a/blobs/uploads", "x/tags/list"}, []string{"t", "list"}},
	{[]string{"manifests", "b/referrers"}, []string{"blobs", "uploads"}},
	{[]string{"r", "s"}, []string{"t", "u"}},
}

type c03Closer interface{ Close() }

func c03BuildStack(cfg c03Config, backend ociregistry.Interface) (ociregistry.Interface, func()) {
	// readers handed to the server refuse to be read once closed (ocimem's keep working, which would
	// hide a reader closed too early somewhere in the stack)
	backend = strictMember{backend}
	sopts := c03ServerOpts(cfg.Opts)
	copts := &ociclient.Options{ListPageSize: cfg.ListPage}
	mk := func(b ociregistry.Interface) (ociregistry.Interface, func()) {
		if cfg.Loopback {
			srv := httptest.NewServer(ociserver.New(b, sopts))
			o := *copts
			o.Insecure = true
			o.Transport = http.DefaultTransport
			c, err := ociclient.New(strings.TrimPrefix(srv.URL, "http://"), &o)
			if err != nil {
				panic(err)
			}
			return c, srv.Close
		}
		c, _ := httpStack(b, sopts, copts)
		return c, func() {}
	}
	switch cfg.Stack {
	case "http1":
		return mk(backend)
	case "dbg":
		quiet := func(string, ...any) {}
		c, cl := mk(ocidebug.New(backend, quiet))
		return ocidebug.New(c, quiet), cl
	case "http2":
		inner, cl1 := mk(backend)
		outer, cl2 := mk(inner)
		return outer, func() { cl2(); cl1() }
	}
	panic("unknown stack " + cfg.Stack)
}

// dualSys applies every operation to the direct registry and to the stack.
type dualSys struct {
	r          *vcore.Run
	preKey     string
	cfg        c03Config
	u          *universe
	a, b       *regSys
	memA, memB *ocimem.Registry
	closeB     func()
	hist       []Op
	log        []string // observation log (for the loopback binding comparison)
	quiet      bool
}

type c03Case struct {
	Config  c03Config `json:"config"`
	History []Op      `json:"history"`
	Text    []string  `json:"text"`
}

func (s *dualSys) caseOf(op *Op) c03Case {
	h := append([]Op(nil), s.hist...)
	if op != nil {
		h = append(h, *op)
	}
	return c03Case{Config: s.cfg, History: h, Text: opsText(h)}
}

func c03Alphabet(u *universe, thorough bool) alphabetConfig {
	c := alphabetConfig{Repos: u.Repos, BadRepo: false, Chunked: true, MaxUploads: 1, MaxUpload: 3,
		Manifests: []int{0, 1, 2, 3, 5, 6}, Blobs: []int{0, 1, 2}, Deletes: true, Mounts: true, BadPushes: true, UntaggedToo: true, ReadsOp: true, CancelAfterCommit: true}
	for i, m := range u.Manifests {
		if m.Name == "mbig" || m.Name == "mbig2" || m.Name == "mparam" {
			c.Manifests = append(c.Manifests, i)
		}
	}
	return c
}

func newDualSys(r *vcore.Run, cfg c03Config) *dualSys {
	ns := c03NameSets[cfg.Names]
	u := newUniverseNamed(ns.repos, ns.tags)
	if strings.Contains(cfg.Opts, "omitdigest") || cfg.Opts == "all" {
		// a manifest just above the client's in-memory threshold: digest recovered by a HEAD request
		big := make([]byte, 0, 131080)
		big = append(big, `{"pad":"`...)
		for len(big) < 131073-2 {
			big = append(big, 'p')
		}
		big = append(big, `"}`...)
		u.Manifests = append(u.Manifests, uniManifest{"mbig", mtOpaque, big})
		// a second one of the same size and media type (a tag may move from one to the other)
		big2 := append([]byte(nil), big...)
		big2[len(big2)-3] = 'q'
		u.Manifests = append(u.Manifests, uniManifest{"mbig2", mtOpaque, big2})
	}
	memA, memB := ocimem.New(), ocimem.New()
	na, nb := new(int), new(int)
	al := c03Alphabet(u, r.Thorough())
	queries := sweepQueries(u, append(append([]string(nil), u.Repos...), "q"))
	a := &regSys{r: r, u: u, cfg: al, static: u.staticOps(al), reg: detIDs{memA, na}, raw: memA, model: NewModel(false), ctx: context.Background(), queries: queries}
	var backendB ociregistry.Interface = detIDs{memB, nb}
	if cfg.MinChunk > 0 {
		backendB = smallChunk{backendB, cfg.MinChunk}
	}
	stack, closeB := c03BuildStack(cfg, backendB)
	b := &regSys{r: r, u: u, cfg: al, reg: stack, raw: memB, model: a.model, ctx: context.Background(), queries: queries, hint: cfg.MinChunk}
	return &dualSys{r: r, cfg: cfg, u: u, a: a, b: b, memA: memA, memB: memB, closeB: closeB}
}

func (s *dualSys) Enabled() []Op {
	var ops []Op
	for _, op := range s.a.Enabled() {
		// mis-positioned resumes surface at different calls on a buffering client (C04 covers them);
		// here every call must agree one to one
		if op.K == "Resume" && (op.Off == "wrong" || op.Off == "zero") {
			continue
		}
		// resume with -1 when exactly one byte was received: excluded by the protocol (C04)
		if op.K == "Resume" && op.Off == "-1" && len(s.a.model.Uploads[op.H].Buf) == 1 {
			continue
		}
		// retrying Commit after a failed Commit: the failed PUT has already delivered the buffered chunk, which
		// the client cannot know; the retry re-sends it (inherent to the protocol; see DESIGN.md D18)
		if (op.K == "Commit" || op.K == "Cancel") && s.a.model.Uploads[op.H].State == "failed" {
			continue
		}
		ops = append(ops, op)
	}
	return ops
}

func c03SameCode(q string, a, b string) bool {
	if a == b || a == "(no code)" || a == "" {
		return true
	}
	// resolves are body-less HEAD requests: only the status class can cross the wire
	if strings.HasPrefix(q, "Resolve") {
		return true
	}
	return false
}

// PreSweepKey: see regSys.PreSweepKey.
func (s *dualSys) PreSweepKey() string { return s.preKey }

func (s *dualSys) Apply(op Op, check bool) (tainted bool) {
	s.preKey = ""
	fp := fmt.Sprintf("C03/%s/%s", s.cfg.Stack, op.K)
	var outA, outB Outcome
	if s.r.Guard("diff", fp, s.caseOf(&op), func() {
		outA = s.a.exec(op)
		outB = s.b.exec(op)
	}) {
		return true
	}
	s.a.model.Advance(s.u, op, outA.OK)
	s.hist = append(s.hist, op)
	s.log = append(s.log, fmt.Sprintf("%s -> ok=%v code=%s desc=%s", op, outB.OK, outB.Code, descText(outB.Desc)))
	if !check && !s.quiet {
		return false
	}
	viol := func(kind, exp, obs string) {
		if check {
			s.r.Violate("diff", fp+"/"+kind, s.caseOf(nil), exp, obs)
		}
		tainted = true
	}
	switch {
	case outA.OK != outB.OK:
		viol("success-differs", fmt.Sprintf("direct ok=%v [%s] %s", outA.OK, outA.Code, outA.Err), fmt.Sprintf("via HTTP ok=%v [%s] %s", outB.OK, outB.Code, outB.Err))
	case !outA.OK && op.K == "PushBlob" && op.Bad == "size":
		// a body shorter or longer than the declared Content-Length cannot be put on the wire at all:
		// the HTTP side fails in the transport, before any OCI error can be produced
	case !outA.OK && strings.HasSuffix(outA.Code, "_UNKNOWN") && strings.HasSuffix(outB.Code, "_UNKNOWN") && (outA.Code == "NAME_UNKNOWN" || outB.Code == "NAME_UNKNOWN"):
		// a content-free repository may be reported as unknown or as empty (a failed push over HTTP leaves one behind)
	case !outA.OK && !c03SameCode(op.K, outA.Code, outB.Code):
		viol("error-code-differs", outA.Code+" "+outA.Err, outB.Code+" "+outB.Err)
	case outA.OK:
		da, db := outA.Desc, outB.Desc
		if op.K == "Mount" && db.Size == 0 {
			db.Size = da.Size // documented: MountBlob may return a zero size
		}
		if op.K == "PushBlob" {
			db.MediaType = da.MediaType // PushBlob: only Digest and Size are meaningful
		}
		if descText(da) != descText(db) {
			viol("descriptor-differs", descText(outA.Desc), descText(outB.Desc))
		}
	}
	if tainted {
		return true
	}
	// upload sizes agree
	for h := range s.a.handles {
		if s.a.handles[h] != nil && s.b.handles[h] != nil && s.a.model.Uploads[h].State == "open" {
			if x, y := s.a.handles[h].Size(), s.b.handles[h].Size(); x != y {
				viol("upload-size-differs", fmt.Sprint(x), fmt.Sprint(y))
			}
		}
	}
	if check {
		s.preKey = s.Key()
	}
	// several readers alive at once on one client: open them all, then read them all
	s.r.Guard("diff", fp+"/held-readers", s.caseOf(nil), func() {
		type held struct {
			q    Query
			a, b ociregistry.BlobReader
		}
		var hs []held
		for _, q := range s.a.queries {
			if q.K != "GetTag" && q.K != "GetManifest" && q.K != "GetBlob" {
				continue
			}
			var ra, rb ociregistry.BlobReader
			var ea, eb error
			switch q.K {
			case "GetTag":
				ra, ea = s.memA.GetTag(s.a.ctx, q.Repo, q.Tag)
				rb, eb = s.b.reg.GetTag(s.b.ctx, q.Repo, q.Tag)
			case "GetManifest":
				ra, ea = s.memA.GetManifest(s.a.ctx, q.Repo, ociregistry.Digest(q.Dig))
				rb, eb = s.b.reg.GetManifest(s.b.ctx, q.Repo, ociregistry.Digest(q.Dig))
			case "GetBlob":
				ra, ea = s.memA.GetBlob(s.a.ctx, q.Repo, ociregistry.Digest(q.Dig))
				rb, eb = s.b.reg.GetBlob(s.b.ctx, q.Repo, ociregistry.Digest(q.Dig))
			}
			if ea != nil || eb != nil {
				if ra != nil {
					ra.Close()
				}
				if rb != nil {
					rb.Close()
				}
				continue // success/failure agreement is checked by the sweep below
			}
			hs = append(hs, held{q, ra, rb})
		}
		for _, h := range hs {
			ta, erra := consumeReader(h.a)
			tb, errb := consumeReader(h.b)
			if ta != tb || (erra == nil) != (errb == nil) {
				viol("held-reader-differs/"+h.q.K, ta, fmt.Sprintf("%s err=%v", tb, errb))
			}
		}
	})
	// reads through the stack equal reads on the direct registry; and the two backends agree
	s.r.Guard("diff", fp+"/sweep", s.caseOf(nil), func() {
		queries := s.a.queries
		// content committed through upload sessions is not part of the fixed universe: read it back too
		known := map[string]bool{}
		for _, q := range queries {
			known[q.Repo+"|"+q.Dig] = true
		}
		var extra []Query
		for name, mr := range s.a.model.Repos {
			for d := range mr.Blobs {
				if !known[name+"|"+string(d)] {
					extra = append(extra, Query{K: "GetBlob", Repo: name, Dig: string(d), What: "uploaded"}, Query{K: "ResolveBlob", Repo: name, Dig: string(d), What: "uploaded"})
				}
			}
		}
		if len(extra) > 0 {
			sort.Slice(extra, func(i, j int) bool {
				return extra[i].Repo+extra[i].Dig+extra[i].K < extra[j].Repo+extra[j].Dig+extra[j].K
			})
			queries = append(append([]Query(nil), queries...), extra...)
		}
		for _, q := range queries {
			oa := runQuery(s.a.ctx, s.memA, q)
			ob := runQuery(s.b.ctx, s.b.reg, q)
			s.log = append(s.log, ob.Text())
			if mism := c03CompareObs(oa, ob); mism != "" {
				if q.K == "GetBlobRange" && q.O0 == q.O1 {
					// one input-level identity for the whole family: an empty range has no HTTP Range form
					if check {
						s.r.Violate("diff", fmt.Sprintf("C03/%s/GetBlobRange/empty-range-over-http", s.cfg.Stack), s.caseOf(nil), oa.Text(), ob.Text())
					}
					continue
				}
				if check {
					s.r.Violate("diff", fmt.Sprintf("C03/%s/read-differs/%s/%s", s.cfg.Stack, q.K, fpClass(mism)), s.caseOf(nil), oa.Text(), ob.Text())
				}
				tainted = true
			}
			if !check {
				continue
			}
			obb := runQuery(s.b.ctx, s.memB, q)
			if mism := c03CompareBackends(s.a.model, q, oa, obb); mism != "" {
				viol(fmt.Sprintf("backend-state-differs/%s", q.K), oa.Text(), obb.Text())
			}
		}
	})
	return tainted
}

// c03CompareObs: same success/failure, code (status class for resolves), descriptor, bytes, items.
func c03CompareObs(a, b Obs) string {
	if (a.Again == "") != (b.Again == "") {
		return "re-run of the same iterator value differs on one side only: " + a.Again + b.Again
	}
	if a.OK != b.OK {
		// a content-free repository may be unknown or empty on either side
		if (a.Q.K == "Tags" || a.Q.K == "Referrers") && len(a.Items)+len(b.Items) == 0 {
			return ""
		}
		return "success differs"
	}
	if !a.OK {
		if a.Q.K == "GetBlobRange" && a.Q.O1 >= 0 && a.Q.O1 < a.Q.O0 {
			return "" // an inverted range is refused on both sides; which check fires first is not specified
		}
		if !c03SameCode(a.Q.K, a.Code, b.Code) {
			// NAME_UNKNOWN vs X_UNKNOWN for a content-free repository is tolerated (a failed push over HTTP leaves an empty repository behind)
			if strings.HasSuffix(a.Code, "_UNKNOWN") && strings.HasSuffix(b.Code, "_UNKNOWN") && (a.Code == "NAME_UNKNOWN" || b.Code == "NAME_UNKNOWN") {
				return ""
			}
			return "error code differs: " + a.Code + " vs " + b.Code
		}
		return ""
	}
	switch a.Q.K {
	case "Tags", "Referrers":
		if strings.Join(a.Items, ",") != strings.Join(b.Items, ",") {
			return "items differ"
		}
	case "Repositories":
		// compared by c03CompareBackends (content-free repositories may differ)
	default:
		if descText(a.Desc) != descText(b.Desc) {
			return "descriptor differs"
		}
		if string(a.Bytes) != string(b.Bytes) {
			return "bytes differ"
		}
	}
	return ""
}

// c03CompareBackends: the backend behind the stack has had exactly the observable effect of the direct calls.
func c03CompareBackends(m *Model, q Query, a, b Obs) string {
	if q.K == "Repositories" {
		// only repositories with content are observable
		filter := func(items []string) string {
			var out []string
			for _, it := range items {
				if r := m.Repos[it]; r != nil && !r.empty() {
					out = append(out, it)
				}
			}
			return strings.Join(out, ",")
		}
		if filter(a.Items) != filter(b.Items) {
			return "repositories differ"
		}
		return ""
	}
	return c03CompareObs(a, b)
}

func (s *dualSys) Key() string {
	d := vstate.NewDumper()
	// client and server objects are part of the state (a cache inside either would be); per-instance
	// counters and the harness transport's statistics are not
	d.SkipTypes = []string{"net/url.Userinfo"}
	d.SkipFields = map[string]bool{"debugID": true, "Requests": true, "Exceeded": true, "MaxRequests": true}
	for i, h := range s.b.handles {
		d.Add(fmt.Sprintf("hb%d", i), h)
	}
	d.Add("memA", s.memA)
	d.Add("memB", s.memB)
	d.Add("stack", s.b.reg)
	return d.String() + "\nmodel=" + s.a.model.Key()
}

// ---- recording backend: argument fidelity ----

type c03RecCase struct {
	Config c03Config `json:"config"`
	Method string    `json:"method"`
	Args   opArgs    `json:"args"`
	Err    string    `json:"backend_error,omitempty"`
}

func c03RecArgs() []opArgs {
	sha512d := ociregistry.Digest(fmt.Sprintf("sha512:%x", sha512.Sum512([]byte(`{"a":1}`))))
	sha384d := ociregistry.Digest(fmt.Sprintf("sha384:%x", sha512.Sum384([]byte(`{"a":1}`))))
	sha256d := sha256Digest([]byte(`{"a":1}`))
	var out []opArgs
	for _, repo := range []string{"a", "a/blobs/uploads", "manifests", "x/tags/list", "b/referrers"} {
		for _, dg := range []ociregistry.Digest{sha256d, sha512d, sha384d} {
			for _, mt := range []string{mtImage, "application/x+json", "application/vnd.x+json; charset=utf-8"} {
				tag := "t"
				if strings.Contains(repo, "/") {
					tag = "list"
				}
				out = append(out, opArgs{Repo: repo, From: "manifests", Tag: tag, ID: "upload-id-1", Digest: dg, O0: 1, O1: 3, Chunk: 0,
					DescDigest: sha256d, DescSize: 7, Data: []byte(`{"a":1}`), MediaType: mt, StartAfter: "a b&c", ArtifactType: ""})
			}
		}
	}
	return out
}

func c03RunRec(r *vcore.Run, c c03RecCase) {
	fp := fmt.Sprintf("C03/%s/rec/%s", c.Config.Stack, c.Method)
	mkBackend := func() *recBackend {
		b := newRecBackend()
		b.Repos = []string{"a", "b", "c"}
		b.TagsL = []string{"t", "u", "v"}
		b.Chunk = 8192
		b.Content = []byte(`{"a":1}`)
		if c.Err != "" {
			for _, e := range stdErrors {
				if e.Code() == c.Err {
					b.Err = e
				}
			}
		}
		return b
	}
	direct := mkBackend()
	behind := mkBackend()
	stack, closeFn := c03BuildStack(c.Config, behind.Funcs())
	defer closeFn()
	ctx := context.Background()
	var ra, rb opResult
	var extraA, extraB string
	if r.Guard("rec", fp, c, func() {
		ra = callMethod(ctx, direct.Funcs(), c.Method, c.Args)
		extraA = c12UseWriter(ra)
		rb = callMethod(ctx, stack, c.Method, c.Args)
		extraB = c12UseWriter(rb)
	}) {
		return
	}
	_ = extraA
	_ = extraB
	if (ra.Err == nil) != (rb.Err == nil) {
		r.Violate("rec", fp+"/success-differs", c, ra.text(), rb.text())
		return
	}
	if ra.Err != nil && !c03SameCode(c.Method, errCodeOf(ra.Err), errCodeOf(rb.Err)) {
		r.Violate("rec", fp+"/error-code-differs", c, ra.text(), rb.text())
	}
	// every backend call carries only what the caller issued
	want := direct.topCalls()
	got := behind.topCalls()
	norm := func(cs []recCall) []string {
		var out []string
		for _, x := range cs {
			x.ctx = nil
			switch x.Method {
			case "PushBlobChunked":
				x.ChunkSize = 0
			case "PushBlobChunkedResume":
				x.ChunkSize = 0
			}
			out = append(out, x.String())
		}
		return out
	}
	switch c.Method {
	case "PushBlob":
		// PushBlob maps to PushBlobChunked (POST) + PushBlobChunkedResume(offset 0) + writes + Commit (PUT), or a single PushBlob
		ok := false
		if len(got) == 1 && got[0].Method == "PushBlob" {
			ok = got[0].Repo == c.Args.Repo && string(got[0].Bytes) == string(c.Args.Data)
		} else if len(got) == 2 && got[0].Method == "PushBlobChunked" && got[1].Method == "PushBlobChunkedResume" {
			var data []byte
			commit := ""
			for _, w := range behind.Calls {
				if w.Method == "Writer.Write" {
					data = append(data, w.Bytes...)
				}
				if w.Method == "Writer.Commit" {
					commit = w.Digest
				}
			}
			ok = got[0].Repo == c.Args.Repo && got[1].Repo == c.Args.Repo && got[1].Offset0 == 0 && string(data) == string(c.Args.Data) && (c.Err != "" || commit == string(c.Args.DescDigest))
		} else if c.Err != "" && len(got) >= 1 && got[0].Method == "PushBlobChunked" && got[0].Repo == c.Args.Repo {
			ok = true
		}
		if !ok {
			r.Violate("rec", fp+"/backend-calls-differ", c, "PushBlobChunked+Resume(0)+Write*+Commit (or PushBlob) with the caller's repository, bytes and digest", fmt.Sprint(norm(got), behind.Calls))
		}
	case "PushBlobChunked", "PushBlobChunkedResume":
		// the writer protocol is covered by C04; here only the repository of every call
		for _, g := range got {
			if g.Repo != c.Args.Repo {
				r.Violate("rec", fp+"/backend-repository-differs", c, c.Args.Repo, g.String())
			}
		}
	case "Repositories", "Tags":
		// paging may issue several backend calls; all with the caller's repository, the first with the caller's start point
		if len(got) == 0 || got[0].StartAfter != c.Args.StartAfter || got[0].Repo != want[0].Repo {
			r.Violate("rec", fp+"/backend-calls-differ", c, fmt.Sprint(norm(want)), fmt.Sprint(norm(got)))
		}
		if ra.Out != rb.Out {
			r.Violate("rec", fp+"/items-differ", c, ra.text(), rb.text())
		}
	case "GetTag":
		// with OmitDigest and a large manifest an extra ResolveTag is legitimate
		if len(got) == 0 || norm(got[:1])[0] != norm(want[:1])[0] {
			r.Violate("rec", fp+"/backend-calls-differ", c, fmt.Sprint(norm(want)), fmt.Sprint(norm(got)))
		}
	case "GetBlobRange":
		if !reflect.DeepEqual(norm(want), norm(got)) {
			r.Violate("rec", fp+"/backend-calls-differ", c, fmt.Sprint(norm(want)), fmt.Sprint(norm(got)))
		}
	default:
		if !reflect.DeepEqual(norm(want), norm(got)) {
			r.Violate("rec", fp+"/backend-calls-differ", c, fmt.Sprint(norm(want)), fmt.Sprint(norm(got)))
		}
	}
	if ra.Err == nil && c.Method != "PushBlobChunked" && c.Method != "PushBlobChunkedResume" && c.Method != "MountBlob" && c.Method != "PushBlob" {
		if ra.Out != rb.Out {
			r.Violate("rec", fp+"/result-differs", c, ra.text(), rb.text())
		}
	}
	r.Outcome("rec-" + c.Method)
}

var stdErrors = []ociregistry.Error{
	ociregistry.ErrBlobUnknown, ociregistry.ErrBlobUploadInvalid, ociregistry.ErrBlobUploadUnknown, ociregistry.ErrDigestInvalid,
	ociregistry.ErrManifestBlobUnknown, ociregistry.ErrManifestInvalid, ociregistry.ErrManifestUnknown, ociregistry.ErrNameInvalid,
	ociregistry.ErrNameUnknown, ociregistry.ErrSizeInvalid, ociregistry.ErrUnauthorized, ociregistry.ErrDenied, ociregistry.ErrUnsupported,
	ociregistry.ErrTooManyRequests, ociregistry.ErrRangeInvalid,
}

// ---- check ----

func c03Configs(thorough bool) []c03Config {
	var out []c03Config
	if !thorough {
		return []c03Config{
			{Stack: "http1", Opts: "none", ListPage: 1000, Names: 0},
			{Stack: "http1", Opts: "none", ListPage: 1000, Names: 2, MinChunk: 1},
			{Stack: "http1", Opts: "all", ListPage: 2, Names: 1},
			{Stack: "dbg", Opts: "omitdigest", ListPage: 1, Names: 2},
			{Stack: "http2", Opts: "none", ListPage: 1000, Names: 0},
		}
	}
	for _, opts := range []string{"none", "omitdigest", "omitlink", "maxpage", "nosinglepost", "all"} {
		for i, lp := range []int{1, 2, 1000} {
			if lp > 2 && (opts == "maxpage" || opts == "all") {
				lp = 2 // a client page size above the server's limit is a configuration error (refused by the server)
			}
			out = append(out, c03Config{Stack: "http1", Opts: opts, ListPage: lp, Names: i})
		}
	}
	out = append(out, c03Config{Stack: "http1", Opts: "none", ListPage: 1000, Names: 2, MinChunk: 1}, c03Config{Stack: "http2", Opts: "all", ListPage: 2, Names: 0, MinChunk: 2})
	for _, st := range []string{"dbg", "http2"} {
		for i, opts := range []string{"none", "omitdigest", "all"} {
			out = append(out, c03Config{Stack: st, Opts: opts, ListPage: []int{1000, 2, 1}[i], Names: i})
		}
	}
	return out
}

func c03Seeds() [][]Op {
	return [][]Op{
		{{K: "PushBlob", Repo: "R0", B: 1}, {K: "PushBlob", Repo: "R0", B: 2}, {K: "PushManifest", Repo: "R0", M: 1, Tag: "T0"}, {K: "PushManifest", Repo: "R0", M: 3, Tag: "T1"}},
		{{K: "PushBlob", Repo: "R0", B: 1}, {K: "PushManifest", Repo: "R0", M: 0, Tag: "T0"}, {K: "PushManifest", Repo: "R0", M: 2, Tag: "T1"}},
		{{K: "PushBlob", Repo: "R1", B: 2}, {K: "Start", Repo: "R0"}, {K: "Write", H: 0, Piece: "a"}},
		// an upload that has just been resumed: the next writes go through a resumed client writer
		{{K: "Start", Repo: "R0"}, {K: "Write", H: 0, Piece: "a"}, {K: "Resume", H: 0, Off: "size"}},
		// a committed upload whose writer is still in the caller's hands (the deferred Cancel idiom)
		{{K: "PushBlob", Repo: "R0", B: 1}, {K: "Start", Repo: "R0"}, {K: "Write", H: 0, Piece: "bc"}, {K: "Commit", H: 0}},
	}
}

func c03NamedSeeds(cfg c03Config) [][]Op {
	ns := c03NameSets[cfg.Names]
	var out [][]Op
	for _, h := range c03Seeds() {
		var nh []Op
		for _, op := range h {
			op.Repo = strings.NewReplacer("R0", ns.repos[0], "R1", ns.repos[1]).Replace(op.Repo)
			op.Tag = strings.NewReplacer("T0", ns.tags[0], "T1", ns.tags[1]).Replace(op.Tag)
			nh = append(nh, op)
		}
		out = append(out, nh)
	}
	if strings.Contains(cfg.Opts, "omitdigest") || cfg.Opts == "all" {
		// a tag on the large manifest that has been read once (the client needed an extra request to learn
		// its digest): the tag may then move to another manifest of the same size
		mbig := len(newUniverse().Manifests) // first manifest appended by newDualSys for these option sets
		out = append(out, []Op{{K: "PushManifest", Repo: ns.repos[0], M: mbig, Tag: ns.tags[0]}, {K: "Reads"}})
	}
	return out
}

func c03Check(r *vcore.Run) vcore.Coverage {
	var states, trans, validated int64
	var notes []map[string]any
	exhaustive := true
	depth := 1
	if r.Thorough() {
		depth = 2
	}
	for _, cfg := range c03Configs(r.Thorough()) {
		cfg := cfg
		d := depth
		if cfg.Stack == "http1" && cfg.Opts == "none" {
			d = depth + 1
		}
		var live []*dualSys
		st := vstate.BFS(vstate.Spec[Op]{
			New:      func() vstate.System[Op] { s := newDualSys(r, cfg); _ = live; return s },
			MaxDepth: d, Seeds: c03NamedSeeds(cfg), Deadline: 8 * time.Minute, MaxStates: 200000,
		})
		states += st.States
		trans += st.Transitions
		if st.CapHit != "" {
			exhaustive = false
		}
		notes = append(notes, map[string]any{"config": cfg, "max_depth": d, "completed_depth": st.Depth, "states": st.States, "transitions": st.Transitions, "cap_hit": st.CapHit, "per_depth_new_states": st.PerDepth})
		for _, h := range st.Samples {
			r.Sample(cfg.Stack+"/"+cfg.Opts, opsText(h))
		}
	}
	// recording backend
	var recCases []c03RecCase
	for _, cfg := range []c03Config{{Stack: "http1", Opts: "none", ListPage: 2}, {Stack: "http1", Opts: "all", ListPage: 2}, {Stack: "http2", Opts: "none", ListPage: 1000}, {Stack: "dbg", Opts: "omitdigest", ListPage: 1}} {
		for _, m := range allMethods {
			if m == "PushBlobChunkedResume" {
				continue // upload IDs are client-side URLs: resumption is covered by the lock-step search and by C04
			}
			for _, a := range c03RecArgs() {
				recCases = append(recCases, c03RecCase{Config: cfg, Method: m, Args: a})
			}
			for _, e := range stdErrors {
				recCases = append(recCases, c03RecCase{Config: cfg, Method: m, Args: c03RecArgs()[0], Err: e.Code()})
			}
		}
	}
	// manifests around and above 4 MiB (the size the distribution specification asks registries to accept at
	// least): the backend must be handed exactly the caller's bytes, or the push must fail
	for _, cfg := range []c03Config{{Stack: "http1", Opts: "none", ListPage: 2}, {Stack: "http2", Opts: "none", ListPage: 1000}} {
		for _, n := range []int{4<<20 - 1, 4 << 20, 4<<20 + 17} {
			a := c03RecArgs()[0]
			a.Data = bytes.Repeat([]byte{'m'}, n)
			a.MediaType = mtOpaque
			recCases = append(recCases, c03RecCase{Config: cfg, Method: "PushManifest", Args: a})
		}
	}
	vcore.ParallelN(len(recCases), func(i int) { c03RunRec(r, recCases[i]) })
	// binding of the in-process transport to net/http: the same histories over a real loopback server
	validated = c03Binding(r)
	r.Notes["runs"] = notes
	r.Notes["recording_backend_cases"] = len(recCases)
	r.Notes["loopback_histories_compared"] = validated
	r.Assume = []string{
		"upload IDs are made deterministic by a harness-side shim in front of both ocimem instances (ocimem accepts caller-chosen IDs); everything else is the real code",
		"mis-positioned resumes and resume(-1) after exactly one byte are excluded here (C04 covers them); MountBlob may return size 0; PushBlob's media type is not part of its contract; when the direct error has no OCI code any code is accepted; resolves compare the status class only",
		"content-free repositories and abandoned upload sessions are not observable content",
		"the in-process transport models net/http; it is bound to the real stack by replaying histories over a loopback httptest.Server and requiring identical observation logs",
	}
	return vcore.Coverage{States: states, Transitions: trans + int64(len(recCases)), TracesImpl: trans + validated, Evaluations: trans + int64(len(recCases)), Nontrivial: states, Exhaustive: exhaustive,
		Rule: "lock-step BFS: every history (alphabet ~90 operations incl. chunked upload with resume, mounts, deletes, bad descriptors; repository/tag names containing the routing words) is applied to ocimem directly and to client->server->ocimem (also with ocidebug on both sides and through two hops) under server option sets and client page sizes; after every transition the call results, a full read sweep through the stack vs. direct, and the two backends are compared; recording backend: 18 methods x names/digests(sha256/384/512)/media types and x every standard error; binding run over real loopback HTTP"}
}

// c03Binding replays histories through both transports and compares the logs.
func c03Binding(r *vcore.Run) int64 {
	cfgs := []c03Config{{Stack: "http1", Opts: "none", ListPage: 2, Names: 0}, {Stack: "http2", Opts: "all", ListPage: 2, Names: 1}}
	var n int64
	for _, cfg := range cfgs {
		base := newDualSys(r, cfg)
		ops := base.Enabled()
		base.closeB()
		var hists [][]Op
		for _, seed := range append([][]Op{nil}, c03NamedSeeds(cfg)...) {
			for _, op := range ops {
				hists = append(hists, append(append([]Op(nil), seed...), op))
			}
		}
		if r.Thorough() {
			for _, o1 := range ops {
				for j, o2 := range ops {
					if j%4 == 0 {
						hists = append(hists, []Op{o1, o2})
					}
				}
			}
		}
		type res struct{ diff string }
		results := make([]string, len(hists))
		vcore.ParallelN(len(hists), func(i int) {
			// a real TCP stack has legitimate run-to-run variation (connection reuse, Expect: 100-continue timing):
			// a difference counts only if it shows on every one of three attempts
			for attempt := 0; attempt < 3; attempt++ {
				logs := [2][]string{}
				for k, loop := range []bool{false, true} {
					c := cfg
					c.Loopback = loop
					s := newDualSys(r, c)
					s.quiet = true
					for _, op := range hists[i] {
						// handles may be missing if an earlier Start failed
						if (op.K != "Start" && strings.Contains("Write Resume Commit Cancel", op.K)) && (op.H >= len(s.a.handles) || s.a.handles[op.H] == nil) {
							break
						}
						s.Apply(op, false)
					}
					// final sweep through the stack
					for _, q := range s.a.queries {
						s.log = append(s.log, runQuery(s.b.ctx, s.b.reg, q).Text())
					}
					logs[k] = s.log
					s.closeB()
				}
				a, b := strings.Join(logs[0], "\n"), strings.Join(logs[1], "\n")
				if a == b {
					results[i] = ""
					break
				}
				results[i] = firstDiff(a, b)
			}
		})
		for i, d := range results {
			n++
			if d != "" {
				r.Violate("binding", "C03/HARNESS-ERROR/inproc-transport-differs-from-net-http/"+cfg.Stack, c03Case{Config: cfg, History: hists[i], Text: opsText(hists[i])}, "identical observation logs over the in-process transport and over loopback TCP", d)
			}
		}
	}
	return n
}

func c03Replay(r *vcore.Run, sub string, raw json.RawMessage) {
	if sub == "rec" {
		var c c03RecCase
		if json.Unmarshal(raw, &c) == nil {
			c03RunRec(r, c)
		}
		return
	}
	var c c03Case
	if err := json.Unmarshal(raw, &c); err != nil {
		return
	}
	s := newDualSys(r, c.Config)
	defer s.closeB()
	for _, op := range c.History {
		if s.Apply(op, true) {
			return
		}
	}
}
