package props

import (
	"encoding/json"
	"fmt"
	"sort"
	"strings"

	"cuelabs.dev/go/oci/ociregistry"
	ocispec "github.com/opencontainers/image-spec/specs-go/v1"
)

// Reference model of registry semantics (C02): per repository a set of blobs,
// a set of manifests and tag-to-descriptor bindings, plus upload sessions.
// Deliberately boring: plain maps, no sharing, no locking.

type tri int

const (
	mustFail tri = -1
	either   tri = 0
	mustOK   tri = 1
)

type Pred struct {
	Ok    tri
	Codes []string // acceptable OCI codes on failure where documented (nil = any)
	Desc  *ociregistry.Descriptor
	// DescMT lists acceptable media types when more than one is tolerable.
	DescMT []string
	// SizeZeroOK: the documented exception that MountBlob may return a zero size.
	SizeZeroOK bool
	Why        string
}

type Outcome struct {
	OK   bool
	Code string
	Err  string
	Desc ociregistry.Descriptor
	N    int
}

func (p Pred) Check(o Outcome) string {
	switch {
	case p.Ok == mustOK && !o.OK:
		return fmt.Sprintf("must succeed (%s) but failed: [%s] %s", p.Why, o.Code, o.Err)
	case p.Ok == mustFail && o.OK:
		return fmt.Sprintf("must fail (%s) but succeeded with %s", p.Why, descText(o.Desc))
	}
	if !o.OK && p.Ok == mustFail && p.Codes != nil {
		ok := false
		for _, c := range p.Codes {
			ok = ok || c == o.Code
		}
		if !ok {
			return fmt.Sprintf("must fail with code %v (%s) but failed with [%s] %s", p.Codes, p.Why, o.Code, o.Err)
		}
	}
	if o.OK && p.Desc != nil {
		d := *p.Desc
		mtOK := d.MediaType == o.Desc.MediaType
		for _, mt := range p.DescMT {
			mtOK = mtOK || mt == o.Desc.MediaType
		}
		sizeOK := d.Size == o.Desc.Size || (p.SizeZeroOK && o.Desc.Size == 0)
		if d.Digest != o.Desc.Digest || !sizeOK || !mtOK {
			return fmt.Sprintf("descriptor: want %s got %s", descText(d), descText(o.Desc))
		}
	}
	return ""
}

type mBlob struct {
	Data []byte
	MT   string
}

type mMan struct {
	Data    []byte
	MT      string
	Subject ociregistry.Digest
}

type mRepo struct {
	Blobs map[ociregistry.Digest]*mBlob
	Mans  map[ociregistry.Digest]*mMan
	Tags  map[string]ociregistry.Descriptor
}

func (r *mRepo) empty() bool {
	return r == nil || (len(r.Blobs) == 0 && len(r.Mans) == 0 && len(r.Tags) == 0)
}

type mUpload struct {
	Repo string
	Buf  []byte
	// Check is the pending start-offset check of each BlobWriter value obtained for this session, by writer slot:
	// absent or -2: no pending check; -1: resume asked "continue"; >=0: that writer's first write must be at this offset.
	Check    map[int]int64
	State    string // open, committed, cancelled, failed
	Explicit bool   // started under a caller-chosen ID
	// Committed is the content the session held when it was first committed successfully.
	Committed []byte
}

type Model struct {
	// HEADResolves: resolves travel as body-less HEAD requests, so a failing
	// resolve can only carry the status class, not the OCI code.
	HEADResolves bool
	// AnyFailCode: only success/failure of reads is compared, not the error code
	// (union view: which member's error surfaces is unspecified).
	AnyFailCode bool
	Immutable   bool
	Repos       map[string]*mRepo
	Uploads     []*mUpload
}

func NewModel(immutable bool) *Model {
	return &Model{Immutable: immutable, Repos: map[string]*mRepo{}}
}

func (u *mUpload) check(w int) int64 {
	if c, ok := u.Check[w]; ok {
		return c
	}
	return -2
}

func (m *Model) repo(name string, create bool) *mRepo {
	r := m.Repos[name]
	if r == nil && create {
		r = &mRepo{Blobs: map[ociregistry.Digest]*mBlob{}, Mans: map[ociregistry.Digest]*mMan{}, Tags: map[string]ociregistry.Descriptor{}}
		m.Repos[name] = r
	}
	return r
}

// Key is a canonical text of the model state (used for vacuity statistics).
func (m *Model) Key() string {
	var sb strings.Builder
	var names []string
	for n, r := range m.Repos {
		if !r.empty() {
			names = append(names, n)
		}
	}
	sort.Strings(names)
	for _, n := range names {
		r := m.Repos[n]
		fmt.Fprintf(&sb, "%s{", n)
		var ks []string
		for d, b := range r.Blobs {
			ks = append(ks, fmt.Sprintf("b:%s:%s", d[7:13], b.MT))
		}
		for d, b := range r.Mans {
			ks = append(ks, fmt.Sprintf("m:%s:%s", d[7:13], b.MT))
		}
		for t, d := range r.Tags {
			ks = append(ks, fmt.Sprintf("t:%s=%s:%s", t, d.Digest[7:13], d.MediaType))
		}
		sort.Strings(ks)
		sb.WriteString(strings.Join(ks, ","))
		sb.WriteString("}")
	}
	for i, u := range m.Uploads {
		fmt.Fprintf(&sb, "u%d[%s,%q,%v,%s]", i, u.Repo, u.Buf, u.check(0), u.State)
	}
	return sb.String()
}

type mRef struct {
	kind string // "blob", "manifest", "subject"
	desc ociregistry.Descriptor
}

// manifestRefs parses references of an image/index manifest by the given
// media type. ok=false if the JSON is malformed; other media types reference nothing.
func manifestRefs(mediaType string, data []byte) (refs []mRef, ok bool) {
	switch mediaType {
	case mtImage:
		var m ocispec.Manifest
		if err := json.Unmarshal(data, &m); err != nil {
			return nil, false
		}
		for _, l := range m.Layers {
			refs = append(refs, mRef{"blob", l})
		}
		refs = append(refs, mRef{"blob", m.Config})
		if m.Subject != nil {
			refs = append(refs, mRef{"subject", *m.Subject})
		}
	case mtIndex:
		var m ocispec.Index
		if err := json.Unmarshal(data, &m); err != nil {
			return nil, false
		}
		for _, e := range m.Manifests {
			refs = append(refs, mRef{"manifest", e})
		}
		if m.Subject != nil {
			refs = append(refs, mRef{"subject", *m.Subject})
		}
	}
	return refs, true
}

const emptySHA = "sha256:e3b0c44298fc1c149afbf4c8996fb92427ae41e4649b934ca495991b7852b855"

// descSane: tri-valued sanity of a referenced descriptor.
func descSane(d ociregistry.Descriptor) tri {
	if !refDigest(string(d.Digest)) {
		return mustFail
	}
	if d.MediaType == "" {
		return either // the statement is silent about descriptors without a media type
	}
	if d.Size == 0 && d.Digest != emptySHA {
		return either // zero size with a non-empty digest: silent
	}
	return mustOK
}

// reach computes what is reachable from the tags of a repository.
// strict: follow blob/manifest edges using each manifest's own media type.
// loose: additionally follow subjects and interpret manifests by the media type
// of the descriptor that referenced them (an implementation may protect more).
func (m *Model) reach(r *mRepo, loose bool) map[ociregistry.Digest]bool {
	// reached: every digest named anywhere in the tagged graph, in whatever role; walked: the manifests
	// already descended into (per media type they were read as). The two are kept apart: a digest may be
	// held both as a blob and as a manifest, and meeting it as somebody's layer says nothing about what
	// it refers to as a manifest.
	reached := map[ociregistry.Digest]bool{}
	walked := map[string]bool{}
	var visit func(d ociregistry.Digest, viaMT string)
	visit = func(d ociregistry.Digest, viaMT string) {
		reached[d] = true
		man := r.Mans[d]
		if man == nil {
			return
		}
		mts := []string{man.MT}
		if loose && viaMT != "" && viaMT != man.MT {
			mts = append(mts, viaMT)
		}
		for _, mt := range mts {
			k := string(d) + "|" + mt
			if walked[k] {
				continue
			}
			walked[k] = true
			refs, _ := manifestRefs(mt, man.Data)
			for _, ref := range refs {
				switch ref.kind {
				case "blob":
					reached[ref.desc.Digest] = true
				case "manifest":
					visit(ref.desc.Digest, ref.desc.MediaType)
				case "subject":
					if loose {
						visit(ref.desc.Digest, ref.desc.MediaType)
					}
				}
			}
		}
	}
	for _, d := range r.Tags {
		visit(d.Digest, d.MediaType)
	}
	return reached
}

// Predict gives the reference answer for a transition.
func (m *Model) Predict(u *universe, op Op) Pred {
	if op.Ctx == "done" {
		// a call made with a cancelled context may fail where it would have succeeded (with whatever error);
		// it may not succeed where the same call with a live context must fail
		live := op
		live.Ctx = ""
		p := m.Predict(u, live)
		if p.Ok == mustOK {
			return Pred{Ok: either, Desc: p.Desc, Why: p.Why + " (context already cancelled: failing is allowed)"}
		}
		p.Codes = nil // whatever error
		return p
	}
	validRepo := refRepo(op.Repo)
	switch op.K {
	case "PushBlob":
		data := u.Blobs[op.B]
		d := descOf(blobMT(op), data)
		if op.Bad != "" || !validRepo {
			var codes []string
			if op.Bad == "digest" {
				codes = append(codes, "DIGEST_INVALID")
			}
			if op.Bad == "size" {
				codes = append(codes, "SIZE_INVALID")
			}
			if !validRepo {
				codes = append(codes, "NAME_INVALID")
			}
			return Pred{Ok: mustFail, Codes: codes, Why: "descriptor or name does not match (documented codes in interface.go)"}
		}
		return Pred{Ok: mustOK, Desc: &d, Why: "consistent descriptor"}
	case "PushManifest":
		um := u.Manifests[op.M]
		d := descOf(um.MediaType, um.Data)
		if !validRepo {
			return Pred{Ok: mustFail, Why: "invalid repository name"}
		}
		if op.Tag != "" && !refTag(op.Tag) {
			return Pred{Ok: mustFail, Why: "invalid tag"}
		}
		r := m.repo(op.Repo, false)
		if m.Immutable && op.Tag != "" && r != nil {
			if cur, ok := r.Tags[op.Tag]; ok {
				if cur.Digest == d.Digest && cur.MediaType == d.MediaType {
					return Pred{Ok: mustOK, Desc: &cur, Why: "same content already tagged"}
				}
				return Pred{Ok: mustFail, Why: "immutable tag"}
			}
		}
		refs, ok := manifestRefs(um.MediaType, um.Data)
		if !ok {
			return Pred{Ok: mustFail, Why: "malformed manifest JSON"}
		}
		res := mustOK
		for _, ref := range refs {
			switch descSane(ref.desc) {
			case mustFail:
				return Pred{Ok: mustFail, Why: "referenced descriptor malformed"}
			case either:
				res = either
			}
			switch ref.kind {
			case "blob":
				if r == nil || r.Blobs[ref.desc.Digest] == nil {
					return Pred{Ok: mustFail, Why: "referenced blob not in repository"}
				}
			case "manifest":
				if r == nil || r.Mans[ref.desc.Digest] == nil {
					return Pred{Ok: mustFail, Why: "referenced manifest not in repository"}
				}
			}
		}
		return Pred{Ok: res, Desc: &d, Why: "well-formed manifest with all references present"}
	case "Mount":
		if !validRepo {
			return Pred{Ok: mustFail, Why: "invalid destination"}
		}
		from := m.repo(op.From, false)
		dig := sha256Digest(u.Blobs[op.B])
		if from == nil || from.Blobs[dig] == nil {
			return Pred{Ok: mustFail, Why: "source blob missing"}
		}
		d := descOf(from.Blobs[dig].MT, u.Blobs[op.B])
		return Pred{Ok: mustOK, Desc: &d, SizeZeroOK: true, Why: "source blob present"}
	case "DeleteBlob":
		r := m.repo(op.Repo, false)
		dig := sha256Digest(u.Blobs[op.B])
		if r == nil || r.Blobs[dig] == nil {
			return Pred{Ok: mustFail, Why: "blob not present"}
		}
		if m.Immutable {
			if m.reach(r, false)[dig] {
				return Pred{Ok: mustFail, Why: "blob referenced from a tag"}
			}
			if m.reach(r, true)[dig] {
				return Pred{Ok: either, Why: "reachable only through subject / descriptor media type"}
			}
		}
		return Pred{Ok: mustOK, Why: "blob present"}
	case "DeleteManifest":
		r := m.repo(op.Repo, false)
		dig := sha256Digest(u.Manifests[op.M].Data)
		if r == nil || r.Mans[dig] == nil {
			return Pred{Ok: mustFail, Why: "manifest not present"}
		}
		if m.Immutable {
			if m.reach(r, false)[dig] {
				return Pred{Ok: mustFail, Why: "manifest tagged or referenced from a tag"}
			}
			if m.reach(r, true)[dig] {
				return Pred{Ok: either, Why: "reachable only through subject / descriptor media type"}
			}
		}
		return Pred{Ok: mustOK, Why: "manifest present"}
	case "DeleteTag":
		r := m.repo(op.Repo, false)
		if r == nil {
			return Pred{Ok: mustFail, Why: "no such tag"}
		}
		if _, ok := r.Tags[op.Tag]; !ok {
			return Pred{Ok: mustFail, Why: "no such tag"}
		}
		if m.Immutable {
			return Pred{Ok: mustFail, Why: "immutable tags"}
		}
		return Pred{Ok: mustOK, Why: "tag present"}
	case "Reads":
		return Pred{Ok: mustOK, Why: "reading changes nothing"}
	case "BackdoorDeleteManifest":
		return Pred{Ok: either, Why: "made directly on the underlying registry"}
	case "Start":
		if !validRepo {
			return Pred{Ok: mustFail, Why: "invalid repository name"}
		}
		if op.Off == "id" {
			return Pred{Ok: either, Why: "resuming an upload ID that was never issued in this repository"}
		}
		return Pred{Ok: mustOK, Why: "new upload"}
	case "Resume":
		up := m.Uploads[op.H]
		if up.State != "open" {
			return Pred{Ok: either, Why: "resume of a finished session"}
		}
		return Pred{Ok: mustOK, Why: "resume of an open session"}
	case "Write":
		up := m.Uploads[op.H]
		if up.State != "open" {
			return Pred{Ok: either, Why: "write to a finished session"}
		}
		if c := up.check(op.W); c >= 0 && c != int64(len(up.Buf)) {
			return Pred{Ok: mustFail, Codes: []string{"RANGE_INVALID"}, Why: "write at an offset the registry has not reached"}
		}
		return Pred{Ok: mustOK, Why: "write at the current offset"}
	case "Commit":
		up := m.Uploads[op.H]
		switch up.State {
		case "cancelled":
			return Pred{Ok: mustFail, Why: "commit after cancel"}
		case "committed", "failed":
			return Pred{Ok: either, Why: "commit after an earlier commit"}
		}
		if op.Bad != "" || (op.Off == "explicit" && op.Piece != string(up.Buf)) {
			return Pred{Ok: mustFail, Why: "digest does not match the uploaded bytes"}
		}
		d := descOf(mtOctet, up.Buf)
		return Pred{Ok: mustOK, Desc: &d, Why: "digest matches"}
	case "Cancel":
		return Pred{Ok: either, Why: "cancel"}
	}
	panic("model: unknown op " + op.K)
}

// Advance applies the transition to the model given whether it succeeded.
func (m *Model) Advance(u *universe, op Op, ok bool) {
	switch op.K {
	case "PushBlob":
		if ok {
			data := u.Blobs[op.B]
			m.repo(op.Repo, true).Blobs[sha256Digest(data)] = &mBlob{Data: data, MT: blobMT(op)}
		}
	case "PushManifest":
		if !ok {
			return
		}
		um := u.Manifests[op.M]
		d := descOf(um.MediaType, um.Data)
		r := m.repo(op.Repo, true)
		if m.Immutable && op.Tag != "" {
			if _, exists := r.Tags[op.Tag]; exists {
				return // same content: nothing changes
			}
		}
		var subject ociregistry.Digest
		refs, _ := manifestRefs(um.MediaType, um.Data)
		for _, ref := range refs {
			if ref.kind == "subject" {
				subject = ref.desc.Digest
			}
		}
		r.Mans[d.Digest] = &mMan{Data: um.Data, MT: um.MediaType, Subject: subject}
		if op.Tag != "" {
			r.Tags[op.Tag] = d
		}
	case "Mount":
		if ok {
			dig := sha256Digest(u.Blobs[op.B])
			src := &mBlob{Data: u.Blobs[op.B], MT: mtOctet}
			if fr := m.repo(op.From, false); fr != nil && fr.Blobs[dig] != nil {
				src = fr.Blobs[dig]
			}
			m.repo(op.Repo, true).Blobs[dig] = &mBlob{Data: src.Data, MT: src.MT}
		}
	case "DeleteBlob":
		if ok {
			delete(m.repo(op.Repo, true).Blobs, sha256Digest(u.Blobs[op.B]))
		}
	case "DeleteManifest", "BackdoorDeleteManifest":
		if ok {
			delete(m.repo(op.Repo, true).Mans, sha256Digest(u.Manifests[op.M].Data))
		}
	case "DeleteTag":
		if ok {
			delete(m.repo(op.Repo, true).Tags, op.Tag)
		}
	case "Start":
		if ok {
			m.Uploads = append(m.Uploads, &mUpload{Repo: op.Repo, Check: map[int]int64{0: 0}, State: "open", Explicit: op.Off == "id"})
		} else {
			m.Uploads = append(m.Uploads, &mUpload{Repo: op.Repo, State: "dead"})
		}
	case "Resume":
		up := m.Uploads[op.H]
		if !ok || up.State != "open" {
			return
		}
		if up.Check == nil {
			up.Check = map[int]int64{}
		}
		switch op.Off {
		case "size":
			up.Check[op.W] = int64(len(up.Buf))
		case "-1":
			up.Check[op.W] = -1
		case "wrong":
			up.Check[op.W] = int64(len(up.Buf)) + 1
		case "zero":
			up.Check[op.W] = 0
		case "num":
			up.Check[op.W] = op.N
		}
	case "Write":
		up := m.Uploads[op.H]
		if ok {
			up.Buf = append(append([]byte(nil), up.Buf...), op.Piece...)
			if up.Check == nil {
				up.Check = map[int]int64{}
			}
			up.Check[op.W] = -2
		}
	case "Commit":
		up := m.Uploads[op.H]
		if ok && op.Off == "recommit" {
			// the digest of the first commit offered again. If the session still holds exactly those bytes,
			// an accepted commit stores them (again, should they have been deleted meanwhile); if it holds
			// anything else, that digest keeps naming the bytes it named: nothing changes in the model.
			if string(up.Buf) == string(up.Committed) && (up.State == "open" || up.State == "committed") {
				m.repo(up.Repo, true).Blobs[sha256Digest(up.Buf)] = &mBlob{Data: up.Buf, MT: mtOctet}
			}
			return
		}
		if ok && up.State == "open" {
			up.Committed = append([]byte(nil), up.Buf...)
		}
		if ok {
			if up.State == "open" || up.State == "committed" {
				m.repo(up.Repo, true).Blobs[sha256Digest(up.Buf)] = &mBlob{Data: up.Buf, MT: mtOctet}
			}
			up.State = "committed"
		} else if up.State == "open" {
			up.State = "failed"
		}
	case "Cancel":
		up := m.Uploads[op.H]
		if up.State == "open" || up.State == "failed" {
			up.State = "cancelled"
		}
		// cancelling a committed upload is a no-op ("Cancel implementations should allow multiple calls even after a commit")
	}
}

// Clone deep-copies the model (for linearizability search).
func (m *Model) Clone() *Model {
	c := &Model{Immutable: m.Immutable, HEADResolves: m.HEADResolves, AnyFailCode: m.AnyFailCode, Repos: map[string]*mRepo{}}
	for n, r := range m.Repos {
		nr := &mRepo{Blobs: map[ociregistry.Digest]*mBlob{}, Mans: map[ociregistry.Digest]*mMan{}, Tags: map[string]ociregistry.Descriptor{}}
		for k, v := range r.Blobs {
			b := *v
			nr.Blobs[k] = &b
		}
		for k, v := range r.Mans {
			b := *v
			nr.Mans[k] = &b
		}
		for k, v := range r.Tags {
			nr.Tags[k] = v
		}
		c.Repos[n] = nr
	}
	for _, u := range m.Uploads {
		nu := *u
		nu.Buf = append([]byte(nil), u.Buf...)
		nu.Check = map[int]int64{}
		for k, v := range u.Check {
			nu.Check[k] = v
		}
		c.Uploads = append(c.Uploads, &nu)
	}
	return c
}
