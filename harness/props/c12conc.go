package props

import (
	"context"
	"fmt"
	"strings"
	"time"

	"cuelabs.dev/go/oci/ociregistry"
	"cuelabs.dev/go/oci/ociregistry/ocifilter"

	"verif/vcore"
	"verif/vsched"
	"verif/vsync"
)

// C12 under concurrency: the wrappers are used by many requests at once. The policy is a pure function,
// but it takes a while to answer (a scheduling point inside it), so whatever a wrapper remembers between
// the question and the answer is exposed to every interleaving of a few overlapping calls. Oracle: the
// wrapped registry is never invoked for the rejected repository, during the overlap or afterwards.

type c12ConcCase struct {
	Wrapper  string     `json:"wrapper"`
	Threads  [][]c12Inv `json:"threads"`
	Schedule []int32    `json:"schedule,omitempty"`
}

func c12ConcBody(c c12ConcCase, backend *recBackend, outs *[]string) func(s *vsched.Sched) {
	return func(s *vsched.Sched) {
		allow := func(name string) bool {
			vsync.Yield() // the policy is consulted: other requests may run before it answers
			return name == "a"
		}
		var w ociregistry.Interface
		if c.Wrapper == "Select" {
			w = ocifilter.Select(backend.Funcs(), allow)
		} else {
			w = ocifilter.AccessChecker(backend.Funcs(), func(name string, k ocifilter.AccessKind) error {
				if name == "*" || allow(name) {
					return nil
				}
				return &c12Deny{name, k}
			})
		}
		for ti, prog := range c.Threads {
			ti, prog := ti, prog
			s.Go(fmt.Sprintf("T%d", ti), func() {
				for _, inv := range prog {
					res := callMethod(context.Background(), w, inv.M, inv.args())
					*outs = append(*outs, fmt.Sprintf("T%d %s err=%v", ti, inv, res.Err != nil))
				}
			})
		}
	}
}

// c12Concurrent explores the overlap harnesses; it needs the instrumented build (ocifilter included).
func c12Concurrent(r *vcore.Run) (execs, points int64, complete bool, notes []map[string]any) {
	complete = true
	if err := c16Probe(); err != nil {
		r.Violate("sched", "C12/HARNESS-ERROR/instrumentation", "probe", "scheduler hooks live", err.Error())
		return 0, 0, false, nil
	}
	get := func(repo string) c12Inv { return c12Inv{M: "ResolveBlob", Repo: repo} }
	push := func(repo string) c12Inv { return c12Inv{M: "PushBlob", Repo: repo} }
	var cases []c12ConcCase
	for _, w := range []string{"Select", "AccessChecker"} {
		cases = append(cases,
			c12ConcCase{Wrapper: w, Threads: [][]c12Inv{{get("a")}, {get("b"), get("b")}}},
			c12ConcCase{Wrapper: w, Threads: [][]c12Inv{{get("a"), get("b")}, {get("b"), get("a")}}},
			c12ConcCase{Wrapper: w, Threads: [][]c12Inv{{push("a")}, {get("b")}, {push("b")}}},
			c12ConcCase{Wrapper: w, Threads: [][]c12Inv{{{M: "MountBlob", Repo: "a", From: "b"}}, {get("a"), push("b")}}},
		)
	}
	for _, c := range cases {
		st := c12ConcExplore(r, c)
		execs += st.Executions
		points += st.Points
		complete = complete && st.Complete
		notes = append(notes, map[string]any{"wrapper": c.Wrapper, "threads": len(c.Threads), "schedules": st.Executions, "complete": st.Complete})
	}
	return
}

// c12ConcExplore explores every schedule of one overlap case.
func c12ConcExplore(r *vcore.Run, c c12ConcCase) vsched.Stats {
	{
		var backend *recBackend
		var outs []string
		ex := vsched.Explorer{Bound: -1, Deadline: 3 * time.Minute, MaxExec: 300000}
		st := ex.Explore(func(s *vsched.Sched) {
			backend = newRecBackend()
			outs = nil
			c12ConcBody(c, backend, &outs)(s)
		}, func(choices []int32, res vsched.Result) bool {
			cc := c
			cc.Schedule = choices
			if res.Failed != 0 {
				r.Violate("sched", "C12/concurrent/"+map[int]string{1: "deadlock", 2: "horizon", 3: "HARNESS-ERROR/nondeterminism", 4: "HARNESS-ERROR/real-block"}[res.Failed], cc, "every schedule completes", res.FailMsg)
				return false
			}
			for _, cl := range backend.Calls {
				if cl.Repo == "b" || cl.FromRepo == "b" {
					r.Violate("sched", "C12/concurrent/"+c.Wrapper+"/backend-invoked-for-rejected-repository", cc, "no backend call names the rejected repository b", cl.String()+" | "+strings.Join(outs, "; "))
					return false
				}
			}
			return true
		})
		return st
	}
}

func c12ConcReplay(r *vcore.Run, c c12ConcCase) {
	backend := newRecBackend()
	var outs []string
	res := vsched.Run(c.Schedule, false, c12ConcBody(c, backend, &outs))
	if res.Failed == 3 {
		fmt.Println("replay: the recorded schedule does not apply to this tree (" + res.FailMsg + "); exploring every schedule of the case instead")
		c.Schedule = nil
		c12ConcExplore(r, c)
		return
	}
	if res.Failed != 0 {
		r.Violate("sched", "C12/concurrent/failed", c, "runs to completion", res.FailMsg)
		return
	}
	for _, cl := range backend.Calls {
		if cl.Repo == "b" || cl.FromRepo == "b" {
			r.Violate("sched", "C12/concurrent/"+c.Wrapper+"/backend-invoked-for-rejected-repository", c, "no backend call names the rejected repository b", cl.String())
		}
	}
}
