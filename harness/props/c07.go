package props

import (
	"bytes"
	"context"
	"encoding/json"
	"errors"
	"fmt"
	"strings"
	"sync/atomic"

	"cuelabs.dev/go/oci/ociregistry"

	"verif/vcore"
)

// C07: errors keep identity, status, detail and message across the wire.
// E4: codes x wrappers x messages x details x hops x carriers, every error
// really sent through ociserver and rebuilt by ociclient.

func init() {
	vcore.Register(&vcore.Prop{ID: "C07", Level: "exploration", Engine: "E4-enum", Check: c07Check, Replay: c07Replay})
}

type c07Spec struct {
	Code    string `json:"code"`
	Wrap    string `json:"wrap"` // none, fmt, http
	Status  int    `json:"status,omitempty"`
	Msg     string `json:"message"`
	Detail  string `json:"detail,omitempty"`
	Carrier string `json:"carrier"`
}

// spec table copied from the distribution specification (not from errorStatuses)
var c07SpecStatus = map[string]int{
	"BLOB_UNKNOWN": 404, "BLOB_UPLOAD_INVALID": 416, "BLOB_UPLOAD_UNKNOWN": 404, "DIGEST_INVALID": 400,
	"MANIFEST_BLOB_UNKNOWN": 404, "MANIFEST_INVALID": 400, "MANIFEST_UNKNOWN": 404, "NAME_INVALID": 400,
	"NAME_UNKNOWN": 404, "SIZE_INVALID": 400, "UNAUTHORIZED": 401, "DENIED": 403, "UNSUPPORTED": 400,
	"TOOMANYREQUESTS": 429, "RANGE_INVALID": 416,
}

var c07Carriers = []string{"GetBlob", "ResolveBlob", "PushManifest", "PushBlobChunked", "DeleteBlob", "Tags", "MountBlob", "GetTag", "ResolveTag", "Referrers", "PushBlob"}

func c07Head(carrier string) bool { return strings.HasPrefix(carrier, "Resolve") }

// c07FitMessage returns a message that makes the marshalled wire body exactly n bytes long.
func c07FitMessage(code string, detail json.RawMessage, n int) string {
	size := func(k int) int {
		data, _ := json.Marshal(ociregistry.WireErrors{Errors: []ociregistry.WireError{{Code_: code, Message: strings.Repeat("m", k), Detail_: detail}}})
		return len(data)
	}
	k := n - size(0)
	if k < 1 {
		return "m"
	}
	for size(k) > n {
		k--
	}
	return strings.Repeat("m", k)
}

func (s c07Spec) message() string {
	var detail json.RawMessage
	if s.Detail != "" {
		detail = json.RawMessage(s.Detail)
	}
	code := s.Code
	if code == "" {
		code = "UNKNOWN"
	}
	switch s.Msg {
	case "<body=8192>":
		return c07FitMessage(code, detail, 8192)
	case "<body=8191>":
		return c07FitMessage(code, detail, 8191)
	}
	return s.Msg
}

func (s c07Spec) build() error {
	var base error
	var detail json.RawMessage
	if s.Detail != "" {
		detail = json.RawMessage(s.Detail)
	}
	if s.Code == "<plain>" {
		base = errors.New(s.message())
	} else {
		base = ociregistry.NewError(s.message(), s.Code, detail)
	}
	switch s.Wrap {
	case "fmt":
		return fmt.Errorf("ctx: %w", base)
	case "http":
		return ociregistry.NewHTTPError(base, s.Status, nil, nil)
	case "http-fmt":
		return fmt.Errorf("outer: %w", ociregistry.NewHTTPError(base, s.Status, nil, nil))
	}
	return base
}

func c07Stack(orig error, hops int) ociregistry.Interface {
	b := newRecBackend()
	b.Err = orig
	b.CommitErr, b.WriteErr = orig, orig
	var reg ociregistry.Interface = b.Funcs()
	for i := 0; i < hops; i++ {
		reg, _ = httpStack(reg, nil, nil)
	}
	return reg
}

func c07Call(reg ociregistry.Interface, carrier string) error {
	a := opArgs{Repo: "r", From: "s", Tag: "t", Digest: c12Dig, DescDigest: c12Dig, DescSize: 5, Data: []byte(`{"a":1}`), MediaType: mtOpaque}
	res := callMethod(context.Background(), reg, carrier, a)
	return res.Err
}

func compactJSON(b []byte) string {
	if len(b) == 0 {
		return ""
	}
	var buf bytes.Buffer
	if err := json.Compact(&buf, b); err != nil {
		return "invalid:" + string(b)
	}
	return buf.String()
}

func c07Run(r *vcore.Run, s c07Spec, maxHops int) {
	orig := s.build()
	fp := "C07/" + s.Carrier
	class := fmt.Sprintf("code=%s/wrap=%s", c07CodeClass(s.Code), s.Wrap)
	if s.Wrap == "http" || s.Wrap == "http-fmt" {
		class += fmt.Sprintf("-%d", s.Status)
	}
	var errs []error
	if r.Guard("err", fp+"/"+class, s, func() {
		for k := 1; k <= maxHops; k++ {
			errs = append(errs, c07Call(c07Stack(orig, k), s.Carrier))
		}
	}) {
		return
	}
	// expectations from the original
	var oe ociregistry.Error
	origCode := ""
	var origDetail string
	if errors.As(orig, &oe) {
		origCode = oe.Code()
		origDetail = compactJSON(oe.Detail())
	}
	wantStatus := 500
	if st, ok := c07SpecStatus[origCode]; ok {
		wantStatus = st
	} else {
		var he ociregistry.HTTPError
		if errors.As(orig, &he) {
			wantStatus = he.StatusCode()
		}
	}
	wantCode := origCode
	if wantCode == "" {
		wantCode = "UNKNOWN"
	}
	head := c07Head(s.Carrier)
	var firstIs []bool
	for k, err := range errs {
		hop := k + 1
		if err == nil {
			r.Violate("err", fp+"/error-lost/"+class, s, "an error", fmt.Sprintf("nil at hop %d", hop))
			return
		}
		var he ociregistry.HTTPError
		if !errors.As(err, &he) {
			r.Violate("err", fp+"/no-http-status/"+class, s, fmt.Sprint(wantStatus), err.Error())
			return
		}
		if he.StatusCode() != wantStatus {
			r.Violate("err", fmt.Sprintf("%s/status-differs/%s/want-%d-got-%d", fp, class, wantStatus, he.StatusCode()), s, fmt.Sprint(wantStatus), fmt.Sprintf("%d at hop %d: %v", he.StatusCode(), hop, err))
		}
		var is []bool
		for _, v := range stdErrors {
			is = append(is, errors.Is(err, v))
		}
		if !head {
			for i, v := range stdErrors {
				if want := errors.Is(orig, v); is[i] != want {
					kind := "gained"
					if want {
						kind = "lost"
					}
					f := fmt.Sprintf("%s/identity-%s-%s/%s", fp, kind, v.Code(), class)
					// one input-level identity for the 416 rule of httpError.Is, whatever the carrier and code
					if v.Code() == "RANGE_INVALID" && kind == "gained" && wantStatus == 416 {
						f = "C07/identity-gained-RANGE_INVALID/any-error-whose-status-is-416"
					}
					if v.Code() == "RANGE_INVALID" && kind == "lost" && s.Status == 416 && strings.HasPrefix(s.Wrap, "http") {
						f = "C07/identity-lost-RANGE_INVALID/coded-error-in-416-status-wrapper"
					}
					r.Violate("err", f, s, fmt.Sprintf("errors.Is(err, %s) = %v as on the original", v.Code(), want), fmt.Sprintf("%v at hop %d: %v", is[i], hop, err))
				}
			}
			var ce ociregistry.Error
			if !errors.As(err, &ce) {
				r.Violate("err", fp+"/no-oci-error/"+class, s, wantCode, err.Error())
			} else {
				if ce.Code() != wantCode {
					r.Violate("err", fp+"/code-differs/"+class, s, wantCode, ce.Code())
				}
				if got := compactJSON(ce.Detail()); got != origDetail {
					r.Violate("err", fp+"/detail-differs/"+c07DetailClass(s.Detail), s, origDetail, got)
				}
			}
		}
		if k == 0 {
			firstIs = is
			// the message itself crosses the wire (only redundant prefixes may be stripped)
			if m := s.message(); m != "" && !head && !strings.HasSuffix(err.Error(), m) {
				r.Violate("err", fp+"/message-lost/"+class+"/msg="+c07MsgClass(s.Msg), s, "error text ending in the original message "+truncate(m, 60), truncate(err.Error(), 200))
			}
		} else {
			for i := range is {
				if is[i] != firstIs[i] {
					r.Violate("err", fmt.Sprintf("%s/identity-not-a-fixed-point/%s/%s", fp, stdErrors[i].Code(), class), s, fmt.Sprintf("same answer as after hop 1 (%v)", firstIs[i]), fmt.Sprintf("%v at hop %d", is[i], hop))
				}
			}
			if err.Error() != errs[0].Error() {
				r.Violate("err", fp+"/message-not-a-fixed-point/"+class+"/msg="+c07MsgClass(s.Msg), s, errs[0].Error(), fmt.Sprintf("hop %d: %s", hop, err.Error()))
			}
		}
	}
	r.Outcome(fmt.Sprintf("status-%d", wantStatus))
}

func c07CodeClass(code string) string {
	if _, ok := c07SpecStatus[code]; ok {
		return code
	}
	switch code {
	case "":
		return "<empty>"
	case "<plain>":
		return "<plain-error>"
	}
	return "<custom>"
}

func c07MsgClass(m string) string {
	switch {
	case m == "":
		return "empty"
	case strings.HasPrefix(m, "<body="):
		return "body-at-8KiB-limit"
	case strings.Contains(m, "Not Found") || strings.Contains(m, "Bad Request") || strings.Contains(m, "I'm a teapot"):
		return "status-prefix"
	case strings.Contains(m, "unknown:") || strings.Contains(m, "denied:") || strings.Contains(m, "custom:"):
		return "code-prefix"
	case strings.Contains(m, ": "):
		return "colon"
	}
	return "plain"
}

func c07DetailClass(d string) string {
	switch {
	case d == "":
		return "none"
	case strings.ContainsAny(d, "0123456789"):
		return "number"
	}
	return "other"
}

func c07Specs(thorough bool) []c07Spec {
	codes := []string{}
	for c := range c07SpecStatus {
		codes = append(codes, c)
	}
	codes = append(codes, "CUSTOM", "unknown", "")
	statuses := []int{400, 404, 405, 416, 418, 500, 501, 599} // incl. statuses a client may read a meaning of its own into (405, 501)
	if thorough {
		statuses = nil
		for s := 400; s <= 599; s++ {
			statuses = append(statuses, s)
		}
	}
	msgs := func(code string) []string {
		low := strings.ToLower(strings.ReplaceAll(code, "_", " "))
		return []string{"something happened", "", low + ": again", "404 Not Found: x", "418 I'm a teapot: blob unknown: y", "a: b: c", "né", "<body=8192>", "<body=8191>",
			"100% of %s %d%v %[2]d %w %!(EXTRA) %",                                            // text that must never be used as a format string
			"ctl \x1b[31mred\x1b[0m nul\x00 bell\a vt\v del\x7f tag\U000E0001 quote\" back\\"} // characters Go quoting and JSON quoting write differently
	}
	details := []string{"", `{}`, `{"a":[1]}`, `"s"`, `{"id":9007199254740993,"big":1e400}`, `[1.10,2.0e0]`}
	var out []c07Spec
	for _, code := range codes {
		for _, carrier := range c07Carriers {
			wraps := []c07Spec{{Wrap: "none"}, {Wrap: "fmt"}}
			for _, st := range statuses {
				wraps = append(wraps, c07Spec{Wrap: "http", Status: st})
			}
			wraps = append(wraps, c07Spec{Wrap: "http-fmt", Status: 418}, c07Spec{Wrap: "http-fmt", Status: 416})
			for _, w := range wraps {
				for mi, msg := range msgs(code) {
					for di, det := range details {
						if code == "<plain>" && det != "" {
							continue
						}
						if strings.HasPrefix(msg, "<body=") && (w.Wrap != "none" || di > 1 || code == "") {
							continue // the size is fitted for the wire form of a coded, unwrapped error
						}
						// full product only in thorough; quick crosses messages and details with a reduced wrapper set
						if !thorough && mi > 0 && di > 0 {
							continue
						}
						if !thorough && (mi > 0 || di > 0) && w.Wrap == "http" && w.Status != 418 && w.Status != 404 {
							continue
						}
						if thorough && w.Wrap == "http" && (mi > 1 || di > 1) && w.Status%37 != 0 && w.Status != 416 && w.Status != 404 {
							continue
						}
						s := c07Spec{Code: code, Wrap: w.Wrap, Status: w.Status, Msg: msg, Detail: det, Carrier: carrier}
						out = append(out, s)
					}
				}
			}
		}
	}
	return out
}

func c07Check(r *vcore.Run) vcore.Coverage {
	specs := c07Specs(r.Thorough())
	var n int64
	vcore.ParallelN(len(specs), func(i int) {
		c07Run(r, specs[i], 3)
		atomic.AddInt64(&n, 3)
	})
	r.Sample("error", specs[len(specs)/2])
	r.Sample("error-http-wrapper", c07Spec{Code: "BLOB_UNKNOWN", Wrap: "http", Status: 416, Msg: "404 Not Found: x", Detail: `{"a":[1]}`, Carrier: "DeleteBlob"})
	r.Assume = []string{
		"over HEAD carriers (ResolveBlob/ResolveTag) no body can cross the wire: only the status per hop and the fixed point of errors.Is from hop 1 on are required",
		"expected statuses come from a table copied from the distribution specification, not from the library's errorStatuses",
		"details are compared as compacted JSON text (number spelling included)",
	}
	return vcore.Coverage{Evaluations: n, Nontrivial: int64(len(specs)), Exhaustive: true,
		Rule: fmt.Sprintf("%d error specifications (19 codes incl. custom, lower-case, empty and a plain Go error x wrappers {none, fmt %%w, HTTP-status wrapper with 8 statuses quick / all of 400..599 thorough, fmt over HTTP wrapper} x 10 messages incl. status and code prefixes, body-limit sizes, % directives and control characters x 6 details incl. numbers float64 cannot hold) x %d carriers (GET, HEAD, PUT, POST, DELETE, list) x hops 1..3; evaluations = error round trips; non-trivial = specifications", len(specs)/len(c07Carriers), len(c07Carriers))}
}

func c07Replay(r *vcore.Run, sub string, raw json.RawMessage) {
	var s c07Spec
	if json.Unmarshal(raw, &s) == nil {
		c07Run(r, s, 3)
	}
}
