package props

import (
	"encoding/json"
	"fmt"

	"cuelabs.dev/go/oci/ociregistry"
	ocispec "github.com/opencontainers/image-spec/specs-go/v1"
)

// The small universe of names and contents over which registry histories
// are enumerated (C01, C02, C03, C13, C14, C15). Chosen so that every shortcut
// visible in ocimem has a colliding input: empty blob, one-byte blob,
// image/index/opaque manifests, a subject, an index whose entry carries the
// wrong media type, malformed JSON, a missing reference, a zero-size
// descriptor, equal bytes under two media types.

const (
	mtOpaque = "application/x+json"
	mtImage  = ocispec.MediaTypeImageManifest
	mtIndex  = ocispec.MediaTypeImageIndex
	mtOctet  = "application/octet-stream"
)

type uniManifest struct {
	Name      string
	MediaType string
	Data      []byte
}

type universe struct {
	Repos     []string
	Blobs     [][]byte
	Manifests []uniManifest
	Tags      []string
}

func descOf(mediaType string, data []byte) ociregistry.Descriptor {
	return ociregistry.Descriptor{MediaType: mediaType, Digest: sha256Digest(data), Size: int64(len(data))}
}

// mtAlt is a second blob media type.
const mtAlt = "application/vnd.example.alt"

// blobMT is the media type a PushBlob operation declares.
func blobMT(op Op) string {
	if op.Piece == "alt" {
		return mtAlt
	}
	return mtOctet
}

func mustJSON(v any) []byte {
	data, err := json.Marshal(v)
	if err != nil {
		panic(err)
	}
	return data
}

func newUniverse() *universe { return newUniverseNamed([]string{"r", "s"}, []string{"t", "u"}) }

// newUniverseNamed builds the universe over the given repository names and tags.
func newUniverseNamed(repos, tags []string) *universe {
	u := &universe{
		Repos: repos,
		Blobs: [][]byte{[]byte(""), []byte("x"), []byte("yy")},
		Tags:  tags,
	}
	b1 := descOf(mtOctet, u.Blobs[1])
	b2 := descOf(mtOctet, u.Blobs[2])
	mo := uniManifest{"mo", mtOpaque, []byte(`{"o":1}`)}
	img := func(config ociregistry.Descriptor, layers []ociregistry.Descriptor, subject *ociregistry.Descriptor) []byte {
		m := ocispec.Manifest{MediaType: mtImage, Config: config, Layers: layers, Subject: subject}
		m.SchemaVersion = 2
		return mustJSON(m)
	}
	idx := func(ms []ociregistry.Descriptor) []byte {
		m := ocispec.Index{MediaType: mtIndex, Manifests: ms}
		m.SchemaVersion = 2
		return mustJSON(m)
	}
	mi := uniManifest{"mi", mtImage, img(b1, []ociregistry.Descriptor{b2}, nil)}
	moDesc := descOf(mo.MediaType, mo.Data)
	mis := uniManifest{"mis", mtImage, img(b1, []ociregistry.Descriptor{}, &moDesc)}
	mx := uniManifest{"mx", mtIndex, idx([]ociregistry.Descriptor{descOf(mtImage, mi.Data)})}
	mxb := uniManifest{"mxb", mtIndex, idx([]ociregistry.Descriptor{descOf(mtOpaque, mi.Data)})}
	mbad := uniManifest{"mbad", mtImage, []byte(`{"layers":`)}
	mmiss := uniManifest{"mmiss", mtImage, img(descOf(mtOctet, []byte("never-pushed")), nil, nil)}
	zero := b1
	zero.Size = 0
	mzero := uniManifest{"mzero", mtImage, img(zero, nil, nil)}
	miOpaque := uniManifest{"mi-as-opaque", mtOpaque, mi.Data}
	// a complete valid image manifest followed by trailing bytes: malformed JSON as a whole
	mtrail := uniManifest{"mi-trailing-garbage", mtImage, append(append([]byte(nil), mi.Data...), "}{"...)}
	// a legal but non-canonical media type: mixed case and a parameter
	mparam := uniManifest{"mparam", "application/vnd.Example.Thing.v1+json; version=2", []byte(`{"p":1}`)}
	// an index that lists mi and also names mi as its subject: one digest in two roles
	miDesc := descOf(mtImage, mi.Data)
	mxs := uniManifest{"mxs", mtIndex, mustJSON(struct {
		SchemaVersion int                      `json:"schemaVersion"`
		MediaType     string                   `json:"mediaType"`
		Manifests     []ociregistry.Descriptor `json:"manifests"`
		Subject       *ociregistry.Descriptor  `json:"subject"`
	}{2, mtIndex, []ociregistry.Descriptor{miDesc}, &miDesc})}
	u.Manifests = []uniManifest{mo, mi, mis, mx, mxb, mbad, mmiss, mzero, miOpaque, mtrail, mparam, mxs}
	return u
}

// withDeepIndex adds k indexes nested one inside the other on top of mx (Manifests[3], an index over the
// image mi): Manifests[12] lists mx, Manifests[13] lists Manifests[12], and so on. Used by C14 only.
func (u *universe) withDeepIndex(k int) *universe {
	prev := u.Manifests[3]
	for i := 0; i < k; i++ {
		ix := ocispec.Index{MediaType: mtIndex, Manifests: []ociregistry.Descriptor{descOf(mtIndex, prev.Data)}}
		ix.SchemaVersion = 2
		prev = uniManifest{fmt.Sprintf("mx%d", i+2), mtIndex, mustJSON(ix)}
		u.Manifests = append(u.Manifests, prev)
	}
	return u
}

// withDualRole adds one digest held both as a blob and as a manifest: the bytes of mi pushed as a blob too
// (Blobs[3]), an image that carries them as a layer (Manifests[12]), and an index that lists that image
// before mi itself (Manifests[13]). Used by C02 only: every sweep grows with the universe.
func (u *universe) withDualRole() *universe {
	mi := u.Manifests[1]
	b1 := descOf(mtOctet, u.Blobs[1])
	u.Blobs = append(u.Blobs, mi.Data)
	im := ocispec.Manifest{MediaType: mtImage, Config: b1, Layers: []ociregistry.Descriptor{descOf(mtOctet, mi.Data)}}
	im.SchemaVersion = 2
	ma := uniManifest{"ma", mtImage, mustJSON(im)}
	ix := ocispec.Index{MediaType: mtIndex, Manifests: []ociregistry.Descriptor{descOf(mtImage, ma.Data), descOf(mtImage, mi.Data)}}
	ix.SchemaVersion = 2
	mxd := uniManifest{"mxd", mtIndex, mustJSON(ix)}
	u.Manifests = append(u.Manifests, ma, mxd)
	return u
}

// withWellKnown adds content that the image specification itself singles out: the two-byte blob "{}" and an
// artifact-style image whose config and only layer are the specification's "empty descriptor"
// (application/vnd.oci.empty.v1+json). To the registry they are a blob and references like any other.
// Returns the blob index and the manifest index.
func (u *universe) withWellKnown() (*universe, int, int) {
	u.Blobs = append(u.Blobs, []byte("{}"))
	e := ocispec.DescriptorEmptyJSON
	e.Data = nil
	im := ocispec.Manifest{MediaType: mtImage, ArtifactType: "application/vnd.example.artifact", Config: e, Layers: []ociregistry.Descriptor{e}}
	im.SchemaVersion = 2
	u.Manifests = append(u.Manifests, uniManifest{"martifact", mtImage, mustJSON(im)})
	return u, len(u.Blobs) - 1, len(u.Manifests) - 1
}

// Op is one transition of a registry history. JSON-serialisable for replay.
type Op struct {
	K     string `json:"k"`
	Repo  string `json:"repo,omitempty"`
	From  string `json:"from,omitempty"`
	Tag   string `json:"tag,omitempty"`
	B     int    `json:"b,omitempty"`   // blob index
	M     int    `json:"m,omitempty"`   // manifest index
	Bad   string `json:"bad,omitempty"` // "", "digest", "size"
	H     int    `json:"h,omitempty"`   // upload handle index
	Piece string `json:"piece,omitempty"`
	Off   string `json:"off,omitempty"` // resume offset mode: "size", "-1", "wrong", "zero", "num" (explicit N)
	N     int64  `json:"n,omitempty"`
	Ctx   string `json:"ctx,omitempty"` // "done": the call is made with a context that is already cancelled
	W     int    `json:"w,omitempty"`   // writer slot: which BlobWriter value of the session is used (0 = the only one, sequential histories)
}

// via names the writer slot when it is not the session's first writer value.
func (o Op) via() string {
	if o.W == 0 {
		return ""
	}
	return fmt.Sprintf("/writer%d", o.W)
}

func (o Op) String() string {
	switch o.K {
	case "PushBlob":
		s := fmt.Sprintf("PushBlob(%s,b%d", o.Repo, o.B)
		if o.Bad != "" {
			s += ",bad-" + o.Bad
		}
		if o.Piece == "alt" {
			s += ",alt-media-type"
		}
		return s + ")"
	case "PushManifest":
		if o.Ctx == "done" {
			return fmt.Sprintf("PushManifest(%s,tag=%q,m%d,context-already-cancelled)", o.Repo, o.Tag, o.M)
		}
		return fmt.Sprintf("PushManifest(%s,tag=%q,m%d)", o.Repo, o.Tag, o.M)
	case "Mount":
		return fmt.Sprintf("Mount(%s->%s,b%d)", o.From, o.Repo, o.B)
	case "DeleteBlob":
		return fmt.Sprintf("DeleteBlob(%s,b%d)", o.Repo, o.B)
	case "DeleteManifest":
		return fmt.Sprintf("DeleteManifest(%s,m%d)", o.Repo, o.M)
	case "DeleteTag":
		return fmt.Sprintf("DeleteTag(%s,%s)", o.Repo, o.Tag)
	case "Start":
		if o.Off == "id" {
			return fmt.Sprintf("StartWithID(%s,%q)", o.Repo, o.Piece)
		}
		return fmt.Sprintf("Start(%s)", o.Repo)
	case "Write":
		return fmt.Sprintf("Write(h%d%s,%q)", o.H, o.via(), o.Piece)
	case "Resume":
		if o.Off == "num" {
			return fmt.Sprintf("Resume(h%d%s,off=%d)", o.H, o.via(), o.N)
		}
		return fmt.Sprintf("Resume(h%d%s,off=%s)", o.H, o.via(), o.Off)
	case "Commit":
		if o.Bad != "" {
			return fmt.Sprintf("Commit(h%d,wrong-digest)", o.H)
		}
		if o.Off == "recommit" {
			return fmt.Sprintf("Commit(h%d,digest-of-the-first-commit-again)", o.H)
		}
		return fmt.Sprintf("Commit(h%d%s)", o.H, o.via())
	case "Cancel":
		return fmt.Sprintf("Cancel(h%d)", o.H)
	case "Reads":
		return "Reads(every query of the sweep)"
	case "BackdoorDeleteManifest":
		return fmt.Sprintf("DeleteManifest(%s,m%d) made directly on the underlying registry", o.Repo, o.M)
	}
	return o.K
}

func opsText(h []Op) []string {
	out := make([]string, len(h))
	for i, o := range h {
		out[i] = o.String()
	}
	return out
}

// alphabetConfig selects which operation families are enumerated.
type alphabetConfig struct {
	ReadsOp bool // "Reads": every read of the sweep performed as an operation of the history (replayed like the
	// others), so that state built up by reading - a cache, a lazily computed field - is carried into later states
	AltBlobMT         bool // also push blobs under a second media type (Op.Piece == "alt"); direct stacks only: HTTP does not carry a blob's media type
	Repos             []string
	BadRepo           bool // include an invalid repository name
	Chunked           bool
	MaxUploads        int
	MaxUpload         int // max bytes per upload session
	Manifests         []int
	Blobs             []int
	Deletes           bool
	Mounts            bool
	BadPushes         bool
	UntaggedToo       bool
	Tags              []string // nil = all tags of the universe
	CancelAfterCommit bool     // Cancel on a committed session only (documented no-op), for stacks where FinishedOps is off
	SelfMounts        bool     // also mounts from a repository into itself
	FinishedOps       bool     // also resume/write/cancel on committed or cancelled upload sessions
	ExplicitIDs       bool     // also start upload sessions under one caller-chosen ID in each repository
	BadNames          []string // extra (hostile) repository names used for pushes, mounts and deletes
	// TwoHandles: an open session may be resumed into a second writer value (slot 1) while the first
	// (slot 0) stays in the caller's hands, and both are then used in any order: a writer that was
	// opened for an offset the session has since left must be refused (direct stacks only: over
	// HTTP a writer value keeps its own offset and the registry cannot tell stale from current)
	TwoHandles bool
	// DoneCtx: tagged pushes are also made with an already-cancelled context (such a call may fail where it
	// would have succeeded; it may not succeed where it must fail)
	DoneCtx bool
}

// staticOps lists the non-upload operations, simplest first.
func (u *universe) staticOps(c alphabetConfig) []Op {
	var ops []Op
	repos := c.Repos
	tags := c.Tags
	if tags == nil {
		tags = u.Tags
	}
	for _, r := range repos {
		for _, b := range c.Blobs {
			ops = append(ops, Op{K: "PushBlob", Repo: r, B: b})
			if c.AltBlobMT && b != 0 {
				ops = append(ops, Op{K: "PushBlob", Repo: r, B: b, Piece: "alt"})
			}
		}
	}
	if c.BadPushes {
		for _, b := range c.Blobs {
			if b == 0 {
				continue
			}
			ops = append(ops, Op{K: "PushBlob", Repo: repos[0], B: b, Bad: "digest"}, Op{K: "PushBlob", Repo: repos[0], B: b, Bad: "size"})
			if c.TwoHandles || c.AltBlobMT { // direct stacks only (over HTTP the declared size is the Content-Length of the request)
				ops = append(ops, Op{K: "PushBlob", Repo: repos[0], B: b, Bad: "overlong"})
			}
		}
	}
	if c.ReadsOp {
		ops = append(ops, Op{K: "Reads"})
	}
	if c.BadRepo {
		ops = append(ops, Op{K: "PushBlob", Repo: "R!", B: 1}, Op{K: "PushManifest", Repo: "R!", M: 0, Tag: "t"}, Op{K: "Start", Repo: "R!"})
	}
	for _, n := range c.BadNames {
		ops = append(ops, Op{K: "PushBlob", Repo: n, B: 1}, Op{K: "PushManifest", Repo: n, M: 0, Tag: "t"}, Op{K: "DeleteBlob", Repo: n, B: 1},
			Op{K: "Mount", From: repos[0], Repo: n, B: 1}, Op{K: "Mount", From: n, Repo: repos[0], B: 1})
	}
	for _, r := range repos {
		for _, m := range c.Manifests {
			for _, t := range tags {
				ops = append(ops, Op{K: "PushManifest", Repo: r, M: m, Tag: t})
				if c.DoneCtx && r == repos[0] {
					ops = append(ops, Op{K: "PushManifest", Repo: r, M: m, Tag: t, Ctx: "done"})
				}
			}
			if c.UntaggedToo {
				ops = append(ops, Op{K: "PushManifest", Repo: r, M: m})
			}
		}
	}
	if c.BadPushes {
		ops = append(ops, Op{K: "PushManifest", Repo: repos[0], M: 0, Tag: "bad tag!"})
	}
	if c.Mounts && len(repos) > 1 {
		for _, b := range c.Blobs {
			ops = append(ops, Op{K: "Mount", From: repos[0], Repo: repos[1], B: b}, Op{K: "Mount", From: repos[1], Repo: repos[0], B: b})
		}
		ops = append(ops, Op{K: "Mount", From: "unknown", Repo: repos[0], B: 1})
	}
	if c.Mounts && c.SelfMounts {
		// a mount whose source is its destination: a write like any other mount
		for _, b := range c.Blobs {
			ops = append(ops, Op{K: "Mount", From: repos[0], Repo: repos[0], B: b})
		}
	}
	if c.Deletes {
		for _, r := range repos {
			for _, b := range c.Blobs {
				ops = append(ops, Op{K: "DeleteBlob", Repo: r, B: b})
			}
			for _, m := range c.Manifests {
				if u.Manifests[m].Name == "mi-as-opaque" {
					continue // same digest as mi
				}
				ops = append(ops, Op{K: "DeleteManifest", Repo: r, M: m})
			}
			for _, t := range tags {
				ops = append(ops, Op{K: "DeleteTag", Repo: r, Tag: t})
			}
		}
	}
	return ops
}
