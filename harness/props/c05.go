package props

import (
	"context"
	"encoding/json"
	"errors"
	"fmt"
	"sort"
	"strings"
	"sync/atomic"

	"cuelabs.dev/go/oci/ociregistry"
	"cuelabs.dev/go/oci/ociregistry/ociclient"
	"cuelabs.dev/go/oci/ociregistry/ocidebug"
	"cuelabs.dev/go/oci/ociregistry/ocifilter"
	"cuelabs.dev/go/oci/ociregistry/ocimem"
	"cuelabs.dev/go/oci/ociregistry/ociserver"
	"cuelabs.dev/go/oci/ociregistry/ociunify"

	"verif/vcore"
)

// C05: listings are complete, ordered, duplicate-free and paginate losslessly.

func init() {
	vcore.Register(&vcore.Prop{ID: "C05", Level: "model_checking", Engine: "E2-state", Check: c05Check, Replay: c05Replay})
}

type c05Case struct {
	Kind      string   `json:"kind"` // repos, tags, referrers
	Stack     string   `json:"stack"`
	Items     []string `json:"items"`
	Items2    []string `json:"items_member2,omitempty"`
	ClientN   int      `json:"client_page_size"`
	ServerMax int      `json:"server_max_page"`
	OmitLink  bool     `json:"omit_link"`
	After     string   `json:"start_after"`
	StopAfter int      `json:"stop_after"`
	ErrAfter  int      `json:"backend_error_after"`
	Allowed   []string `json:"allowed,omitempty"`
	Gen       int      `json:"generated_items,omitempty"`      // Items = t00000 .. t<Gen-1> (kept out of the artefact)
	Dangling  bool     `json:"subject_never_pushed,omitempty"` // referrers of a subject that is not in the repository (allowed)
}

func (c c05Case) expand() c05Case {
	if c.Gen > 0 && len(c.Items) == 0 {
		c.Items = make([]string, c.Gen)
		for i := range c.Items {
			c.Items[i] = fmt.Sprintf("t%05d", i)
		}
	}
	return c
}

const c05Prefix = "p"

func c05Rec(kind string, items []string, errAfter int) *recBackend {
	b := newRecBackend()
	switch kind {
	case "repos":
		b.Repos = items
	case "tags":
		b.TagsL = items
	case "referrers":
		for _, it := range items {
			b.Refs = append(b.Refs, ociregistry.Descriptor{MediaType: mtOpaque, Digest: sha256Digest([]byte(it)), Size: int64(len(it))})
		}
		sort.Slice(b.Refs, func(i, j int) bool { return b.Refs[i].Digest < b.Refs[j].Digest })
	}
	if errAfter >= 0 {
		b.ListErrAfter, b.ListErr = errAfter, c12BackendErr
	}
	return b
}

// c05Budget bounds the round trips of one listing: far above what any correct paging needs.
const c05Budget = 64

func c05HTTP(backend ociregistry.Interface, c c05Case) ociregistry.Interface {
	cl, tr := httpStack(backend, &ociserver.Options{MaxListPageSize: c.ServerMax, OmitLinkHeaderFromResponses: c.OmitLink}, &ociclient.Options{ListPageSize: c.ClientN})
	tr.MaxRequests = c05Budget
	return cl
}

func c05Allow(c c05Case) func(string) bool {
	allowed := map[string]bool{}
	for _, a := range c.Allowed {
		allowed[a] = true
	}
	return func(n string) bool { return allowed[n] }
}

// c05Build returns the stack under test for the case.
// c05Mem builds a real ocimem holding the items as repositories or as tags of repository r.
// c05RefManifest is the referrer manifest standing for item it: an image manifest whose subject is the
// (opaque) manifest "hello" that the Referrers queries of this check name.
func c05RefManifest(it string) []byte {
	return []byte(fmt.Sprintf(`{"schemaVersion":2,"mediaType":%q,"config":{"mediaType":%q,"digest":%q,"size":5},"layers":[],"subject":{"mediaType":%q,"digest":%q,"size":5},"annotations":{"item":%q}}`,
		mtImage, mtOctet, c12Dig, mtOpaque, c12Dig, it))
}

func c05Mem(c c05Case) ociregistry.Interface {
	m := ocimem.New()
	ctx := context.Background()
	if c.Kind == "referrers" {
		// subject, config blob, and every referrer pushed more than once (untagged, tagged, untagged
		// again): a manifest is stored once however often it is pushed
		must := func(_ ociregistry.Descriptor, err error) {
			if err != nil {
				panic(err)
			}
		}
		must(m.PushBlob(ctx, "r", descOf(mtOctet, []byte("hello")), strings.NewReader("hello")))
		if !c.Dangling {
			must(m.PushManifest(ctx, "r", "", []byte("hello"), mtOpaque))
		}
		for i, it := range c.Items {
			must(m.PushManifest(ctx, "r", "", c05RefManifest(it), mtImage))
			must(m.PushManifest(ctx, "r", fmt.Sprintf("tag%d", i), c05RefManifest(it), mtImage))
			must(m.PushManifest(ctx, "r", "", c05RefManifest(it), mtImage))
		}
		return m
	}
	for _, it := range c.Items {
		var err error
		if c.Kind == "repos" {
			_, err = m.PushManifest(ctx, it, "t", []byte(`{"x":1}`), mtOpaque)
		} else {
			_, err = m.PushManifest(ctx, "r", it, []byte(`{"x":1}`), mtOpaque)
		}
		if err != nil {
			panic(err)
		}
	}
	if len(c.Items) == 0 && c.Kind == "tags" {
		m.PushManifest(ctx, "r", "", []byte(`{"x":1}`), mtOpaque)
	}
	return m
}

func c05Build(c c05Case) ociregistry.Interface {
	switch c.Stack {
	case "mem":
		return c05Mem(c)
	case "http1-mem":
		return c05HTTP(c05Mem(c), c)
	}
	rec := c05Rec(c.Kind, c.Items, c.ErrAfter).Funcs()
	switch c.Stack {
	case "rec":
		return rec
	case "http1":
		return c05HTTP(rec, c)
	case "http2":
		return c05HTTP(c05HTTP(rec, c), c)
	case "dbg-http1-dbg":
		return ocidebug.New(c05HTTP(ocidebug.New(rec, func(string, ...any) {}), c), func(string, ...any) {})
	case "sel-http1":
		return ocifilter.Select(c05HTTP(rec, c), c05Allow(c))
	case "http1-sel":
		return c05HTTP(ocifilter.Select(rec, c05Allow(c)), c)
	case "sub-http1":
		return ocifilter.Sub(c05HTTP(rec, c), c05Prefix)
	case "http1-sub":
		return c05HTTP(ocifilter.Sub(rec, c05Prefix), c)
	case "uni":
		return ociunify.New(rec, c05Rec(c.Kind, c.Items2, -1).Funcs(), nil)
	case "uni-notfound", "notfound-uni":
		// the other member does not know the repository at all
		nf := newRecBackend()
		nf.Err = ociregistry.ErrNameUnknown
		if c.Stack == "uni-notfound" {
			return ociunify.New(rec, nf.Funcs(), nil)
		}
		return ociunify.New(nf.Funcs(), rec, &ociunify.Options{ReadPolicy: ociunify.ReadConcurrent})
	case "uni-http1":
		return ociunify.New(c05HTTP(rec, c), c05HTTP(c05Rec(c.Kind, c.Items2, -1).Funcs(), c), &ociunify.Options{ReadPolicy: ociunify.ReadConcurrent})
	case "http1-uni":
		return c05HTTP(ociunify.New(rec, c05Rec(c.Kind, c.Items2, -1).Funcs(), nil), c)
	}
	panic("unknown stack " + c.Stack)
}

// c05Want computes the model sequence.
func c05Want(c c05Case) []string {
	set := map[string]bool{}
	for _, it := range c.Items {
		set[it] = true
	}
	if strings.Contains(c.Stack, "uni") && !strings.Contains(c.Stack, "notfound") {
		for _, it := range c.Items2 {
			set[it] = true
		}
	}
	var all []string
	for it := range set {
		name := it
		if c.Kind == "repos" {
			if strings.Contains(c.Stack, "sel") && !c05Allow(c)(it) {
				continue
			}
			if strings.Contains(c.Stack, "sub") {
				s, ok := strings.CutPrefix(it, c05Prefix+"/")
				if !ok {
					continue
				}
				name = s
			}
		}
		if c.Kind == "referrers" {
			name = descText(ociregistry.Descriptor{MediaType: mtOpaque, Digest: sha256Digest([]byte(it)), Size: int64(len(it))})
			if strings.Contains(c.Stack, "mem") {
				name = descText(descOf(mtImage, c05RefManifest(it)))
			}
		}
		all = append(all, name)
	}
	if c.Kind == "referrers" {
		sort.Slice(all, func(i, j int) bool { return strings.SplitN(all[i], "|", 3)[1] < strings.SplitN(all[j], "|", 3)[1] })
		return all
	}
	sort.Strings(all)
	var want []string
	for _, it := range all {
		if it > c.After {
			want = append(want, it)
		}
	}
	return want
}

// c05Overlap obtains several listings before consuming any of them: each must still deliver its own sequence.
func c05Overlap(r *vcore.Run, c c05Case, reg ociregistry.Interface) {
	ctx := context.Background()
	fp := fmt.Sprintf("C05/%s/%s/overlapping-iterations", c.Kind, c.Stack)
	r.Guard("list", fp, c, func() {
		type it struct {
			after string
			seq   ociregistry.Seq[string]
		}
		var its []it
		for _, after := range []string{"", "a", "b0"} {
			if c.Kind == "repos" {
				its = append(its, it{after, reg.Repositories(ctx, after)})
			} else {
				its = append(its, it{after, reg.Tags(ctx, "r", after)})
			}
		}
		// an unrelated listing in between
		ociregistry.All(reg.Repositories(ctx, "zz"))
		for _, x := range its {
			cc := c
			cc.After = x.after
			want := c05Want(cc)
			got, err := ociregistry.All(x.seq)
			if err != nil || strings.Join(got, ",") != strings.Join(want, ",") {
				r.Violate("list", fp, cc, strings.Join(want, ","), fmt.Sprintf("%v err=%v", got, err))
			}
		}
	})
}

// c05Rerun runs one iterator value three times (fully, stopped after one item, fully): a listing
// value describes a listing, it is not a cursor.
func c05Rerun(r *vcore.Run, c c05Case) {
	fp := fmt.Sprintf("C05/%s/%s/same-iterator-run-again", c.Kind, c.Stack)
	reg := c05Build(c)
	ctx := context.Background()
	repo := "r"
	if strings.Contains(c.Stack, "sel") {
		repo = "a"
	}
	r.Guard("list", fp, c, func() {
		var again string
		switch c.Kind {
		case "repos":
			_, _, _, again = consumeAgain(reg.Repositories(ctx, c.After), func(s string) string { return s })
		case "tags":
			_, _, _, again = consumeAgain(reg.Tags(ctx, repo, c.After), func(s string) string { return s })
		case "referrers":
			_, _, _, again = consumeAgain(reg.Referrers(ctx, repo, c12Dig, ""), descText)
		}
		if again != "" {
			r.Violate("list", fp, c, "every run of the same iterator value delivers the same listing", again)
		}
	})
}

// c05CancelMidway: the consumer cancels its context after the k-th item and keeps accepting. What it
// is given from then on is the rest of the listing or an error - never a clean end part-way.
func c05CancelMidway(r *vcore.Run, c c05Case) {
	want := c05Want(c)
	repo := "r"
	if strings.Contains(c.Stack, "sel") {
		repo = "a"
	}
	for k := 1; k <= len(want) && k <= 3; k++ {
		fp := fmt.Sprintf("C05/%s/%s/context-cancelled-midway", c.Kind, c.Stack)
		reg := c05Build(c)
		ctx, cancel := context.WithCancel(context.Background())
		r.Guard("list", fp, c, func() {
			var got []string
			var gotErr error
			n := 0
			each := func(item string, err error) bool {
				if err != nil {
					gotErr = err
					return false
				}
				got = append(got, item)
				n++
				if n == k {
					cancel()
				}
				return true
			}
			switch c.Kind {
			case "repos":
				reg.Repositories(ctx, c.After)(each)
			case "tags":
				reg.Tags(ctx, repo, c.After)(each)
			case "referrers":
				reg.Referrers(ctx, repo, c12Dig, "")(func(d ociregistry.Descriptor, err error) bool { return each(descText(d), err) })
			}
			for i := range got {
				if i >= len(want) || got[i] != want[i] {
					r.Violate("list", fp+"/wrong-item", c, strings.Join(want, ","), strings.Join(got, ","))
					return
				}
			}
			if gotErr == nil && len(got) != len(want) {
				r.Violate("list", fp+"/silently-short", c, fmt.Sprintf("all %d items or an error (context cancelled after item %d)", len(want), k), fmt.Sprintf("%d items, no error", len(got)))
			}
		})
		cancel()
	}
}

func c05Run(r *vcore.Run, c c05Case) {
	art := c // the artefact keeps the generator, not 10 000 names
	c = c.expand()
	fp := fmt.Sprintf("C05/%s/%s", c.Kind, c.Stack)
	if c.StopAfter == 0 && c.ErrAfter < 0 && !(c.ServerMax > 0 && c.ClientN > c.ServerMax) {
		c05Rerun(r, c)
		if art.Gen == 0 {
			c05CancelMidway(r, c)
		}
	}
	if art.Gen > 0 {
		c05RunBig(r, art, c)
		return
	}
	reg := c05Build(c)
	if (c.Stack == "mem" || c.Stack == "http1-mem" || c.Stack == "rec") && c.Kind != "referrers" && c.StopAfter == 0 && c.ErrAfter < 0 && c.After == "" && !(c.ServerMax > 0 && c.ClientN > c.ServerMax) {
		c05Overlap(r, c, reg)
		reg = c05Build(c)
	}
	var res opResult
	repo := "r"
	if strings.Contains(c.Stack, "sel") {
		repo = "a" // tags/referrers of an allowed repository
	}
	if r.Guard("list", fp, c, func() {
		switch c.Kind {
		case "repos":
			res = callMethod(context.Background(), reg, "Repositories", opArgs{StartAfter: c.After, StopAfter: c.StopAfter})
		case "tags":
			res = callMethod(context.Background(), reg, "Tags", opArgs{Repo: repo, StartAfter: c.After, StopAfter: c.StopAfter})
		case "referrers":
			res = callMethod(context.Background(), reg, "Referrers", opArgs{Repo: repo, Digest: c12Dig, StopAfter: c.StopAfter})
		}
	}) {
		return
	}
	if res.Err != nil && strings.Contains(res.Err.Error(), "request budget") {
		r.Violate("list", fp+"/paging-does-not-terminate", c, "a finite number of page requests", fmt.Sprintf("more than %d requests: %s", c05Budget, res.text()))
		return
	}
	want := c05Want(c)
	var got []string
	if res.Out != "" {
		got = strings.Split(res.Out, ",")
	}
	if c.Kind == "referrers" && res.Out != "" {
		got = strings.Split(res.Out, ",")
	}
	if c.ErrAfter >= 0 && strings.Contains(c.Stack, "uni") && !strings.Contains(c.Stack, "notfound") {
		// one member failing: the other member's items may still be delivered (followed by the
		// error unless the consumer stops first): an ascending duplicate-free subsequence of the model
		j := 0
		for _, g := range got {
			for j < len(want) && want[j] != g {
				j++
			}
			if j == len(want) {
				r.Violate("list", fp+"/wrong-item", c, "ascending subsequence of "+strings.Join(want, ","), res.text())
				return
			}
			j++
		}
		if res.Err == nil && !(c.StopAfter > 0 && len(got) >= c.StopAfter) && len(got) != len(want) {
			r.Violate("list", fp+"/silently-short", c, strings.Join(want, ","), res.text())
		}
		if res.Post != "" {
			r.Violate("list", fp+"/consumer-called-after-stop-or-error", c, "no further calls", res.Post)
		}
		r.Outcome("member-error")
		return
	}
	// delivered items: a prefix of the model sequence
	for i := range got {
		if i >= len(want) || got[i] != want[i] {
			kind := "wrong-item"
			if i > 0 && got[i] <= got[i-1] && c.Kind != "referrers" {
				kind = "not-ascending-or-duplicate"
			}
			r.Violate("list", fp+"/"+kind, c, strings.Join(want, ","), res.text())
			return
		}
	}
	stopped := c.StopAfter > 0 && len(got) >= c.StopAfter
	switch {
	case stopped:
		if len(got) != c.StopAfter {
			r.Violate("list", fp+"/delivered-after-decline", c, fmt.Sprintf("%d items", c.StopAfter), res.text())
		}
		r.Outcome("stopped")
	case res.Err != nil:
		// an error ends the iteration: acceptable whenever something could go wrong underneath
		legit := c.ErrAfter >= 0 || (c.ServerMax > 0 && c.ClientN > c.ServerMax) || (c.Kind != "repos" && strings.Contains(c.Stack, "sel") && !c05Allow(c)(repo))
		if !legit {
			r.Violate("list", fp+"/unexpected-error", c, strings.Join(want, ","), res.text())
		}
		r.Outcome("error")
	default:
		if len(got) != len(want) {
			r.Violate("list", fp+"/silently-short", c, strings.Join(want, ","), res.text())
		}
		if c.ErrAfter >= 0 {
			// the backend error may lie beyond what this listing needed only if the backend listing was consumed entirely before it
			src := filterAfter(c.Items, c.After)
			if c.Kind == "referrers" {
				src = c.Items
			}
			if c.ErrAfter <= len(src) && !strings.Contains(c.Stack, "sub") && !strings.Contains(c.Stack, "sel") {
				r.Violate("list", fp+"/backend-error-swallowed", c, "the injected backend error surfaces", res.text())
			}
		}
		r.Outcome("complete")
	}
	if res.Err != nil && c.ErrAfter >= 0 && c.Stack == "rec" && !errors.Is(res.Err, c12BackendErr) {
		r.Violate("list", fp+"/error-identity", c, c12BackendErr.Error(), res.Err.Error())
	}
	if res.Post != "" {
		r.Violate("list", fp+"/consumer-called-after-stop-or-error", c, "no further calls", res.Post)
	}
}

// c05RunBig: listings longer than any page size the server would choose by itself.
func c05RunBig(r *vcore.Run, art, c c05Case) {
	fp := fmt.Sprintf("C05/%s/%s/big", c.Kind, c.Stack)
	reg := c05Build(c)
	r.Guard("list", fp, art, func() {
		var items []string
		var err error
		if c.Kind == "repos" {
			items, err = ociregistry.All(reg.Repositories(context.Background(), c.After))
		} else {
			items, err = ociregistry.All(reg.Tags(context.Background(), "r", c.After))
		}
		want := c05Want(c)
		switch {
		case err != nil:
			r.Violate("list", fp+"/unexpected-error", art, fmt.Sprintf("%d items", len(want)), err.Error())
		case len(items) != len(want):
			r.Violate("list", fp+"/silently-short", art, fmt.Sprintf("%d items", len(want)), fmt.Sprintf("%d items, last %q", len(items), lastOf(items)))
		default:
			for i := range items {
				if items[i] != want[i] {
					r.Violate("list", fp+"/wrong-item", art, want[i], fmt.Sprintf("item %d = %q", i, items[i]))
					return
				}
			}
		}
	})
}

func lastOf(xs []string) string {
	if len(xs) == 0 {
		return ""
	}
	return xs[len(xs)-1]
}

func c05Cases(thorough bool) []c05Case {
	plain := []string{"a", "b", "c", "d", "e", "f", "g"}
	odd := []string{"a b", "a%2Fb", "a&b=c", "a+b", "b", "é"}
	sort.Strings(odd)
	subNames := []string{"p", "p-x/a", "p.d/x", "p/a", "p/b", "p/b/c", "p/d", "pp/x", "q"}
	maxN := 5
	if thorough {
		maxN = 7
	}
	var out []c05Case
	afters := func(items []string) []string {
		a := []string{"", "a0", "zz", "a&b=c", "a b", "a%2Fb", "a+b", "é", "b&n=1"}
		a = append(a, items...)
		return a
	}
	pageSizes := []int{1, 2, 3, 1000}
	type cfg struct {
		max  int
		omit bool
	}
	cfgs := []cfg{{0, false}, {0, true}, {2, false}, {2, true}}
	add := func(c c05Case) {
		stops := []int{0, 1, 2, 3}
		if thorough {
			stops = []int{0}
			for k := 1; k <= len(c.Items)+1; k++ {
				stops = append(stops, k)
			}
		}
		for _, st := range stops {
			c.StopAfter = st
			c.ErrAfter = -1
			out = append(out, c)
			if st <= 1 && !strings.Contains(c.Stack, "mem") {
				for j := 0; j <= len(c.Items) && (thorough || j <= 3); j++ {
					e := c
					e.ErrAfter = j
					out = append(out, e)
				}
			}
		}
	}
	for _, kind := range []string{"repos", "tags"} {
		for n := 0; n <= maxN; n++ {
			items := plain[:n]
			for _, stack := range []string{"rec", "mem", "http1-mem", "http1", "http2", "dbg-http1-dbg"} {
				for _, ps := range pageSizes {
					for _, cf := range cfgs {
						if (stack == "rec" || stack == "mem") && (ps != 1 || cf.max != 0 || cf.omit) {
							continue
						}
						if stack == "http2" && !thorough && (ps == 3 || n > 4) {
							continue
						}
						for _, after := range afters(items) {
							if !thorough && len(after) > 1 && after != "a0" && stack != "http1" {
								continue
							}
							add(c05Case{Kind: kind, Stack: stack, Items: items, ClientN: ps, ServerMax: cf.max, OmitLink: cf.omit, After: after})
						}
					}
				}
			}
		}
		// items containing URL metacharacters: paging must round-trip them through ?last=
		for _, stack := range []string{"http1", "http2"} {
			for _, ps := range []int{1, 2, 1000} {
				for _, cf := range cfgs[:2] {
					for _, after := range []string{"", "a b", "a+b", "a"} {
						add(c05Case{Kind: kind, Stack: stack, Items: odd, ClientN: ps, ServerMax: cf.max, OmitLink: cf.omit, After: after})
					}
				}
			}
		}
	}
	// select / sub / unify
	for n := 0; n <= maxN; n++ {
		items := plain[:n]
		for am := 0; am < 1<<n; am++ {
			if !thorough && n > 3 && am%5 != 0 {
				continue
			}
			var allowed []string
			for i, it := range items {
				if am&(1<<i) != 0 {
					allowed = append(allowed, it)
				}
			}
			for _, stack := range []string{"sel-http1", "http1-sel"} {
				for _, ps := range []int{1, 2, 1000} {
					for _, after := range []string{"", "a", "b0", "zz"} {
						add(c05Case{Kind: "repos", Stack: stack, Items: items, ClientN: ps, After: after, Allowed: allowed})
					}
				}
			}
		}
	}
	for mask := 1; mask < 1<<len(subNames); mask++ {
		if !thorough && mask%7 != 0 && mask != 1<<len(subNames)-1 {
			continue
		}
		var items []string
		for i, it := range subNames {
			if mask&(1<<i) != 0 {
				items = append(items, it)
			}
		}
		for _, stack := range []string{"sub-http1", "http1-sub"} {
			for _, ps := range []int{1, 2, 1000} {
				// (start points need not be repository names: a start point is just a string to sort after)
				for _, after := range []string{"", "a", "b", "b/c", "c", "zz", "b/", "a-", "b~", "a b", "b?x=y", "B", "a/"} {
					add(c05Case{Kind: "repos", Stack: stack, Items: items, ClientN: ps, After: after})
				}
			}
		}
	}
	for _, kind := range []string{"repos", "tags", "referrers"} {
		for n := 0; n <= maxN; n++ {
			items := plain[:n]
			var evens, odds []string
			for i, it := range items {
				if i%2 == 0 {
					evens = append(evens, it)
				} else {
					odds = append(odds, it)
				}
			}
			pairs := [][2][]string{{evens, odds}, {items, items}, {items, odds}, {evens, items}, {nil, items}}
			for _, pr := range pairs {
				for _, stack := range []string{"uni", "uni-http1", "http1-uni"} {
					for _, ps := range []int{1, 2, 1000} {
						if stack == "uni" && ps != 1 {
							continue
						}
						for _, after := range []string{"", "a", "b0", "zz"} {
							if kind == "referrers" && after != "" {
								continue
							}
							add(c05Case{Kind: kind, Stack: stack, Items: pr[0], Items2: pr[1], ClientN: ps, After: after})
						}
					}
				}
			}
		}
		if kind != "repos" {
			// one member fails part-way while the other does not know the repository: the error must surface
			for n := 0; n <= 4; n++ {
				for _, stack := range []string{"uni-notfound", "notfound-uni"} {
					add(c05Case{Kind: kind, Stack: stack, Items: plain[:n], ClientN: 1})
				}
			}
		}
		if kind == "referrers" {
			for n := 0; n <= 4; n++ {
				for _, stack := range []string{"rec", "http1", "http2", "dbg-http1-dbg", "mem", "http1-mem"} {
					add(c05Case{Kind: kind, Stack: stack, Items: plain[:n], ClientN: 2})
					if strings.Contains(stack, "mem") {
						add(c05Case{Kind: kind, Stack: stack, Items: plain[:n], ClientN: 2, Dangling: true})
					}
				}
			}
		}
	}
	// listings longer than the largest page the server picks by itself (10000): every client page size
	// around that number, with and without Link headers, from the start and from a start point
	for _, kind := range []string{"tags", "repos"} {
		for _, ps := range []int{-1, 4000, 10000, 10001, 20000} {
			for _, omit := range []bool{false, true} {
				for _, after := range []string{"", "t00002"} {
					if !thorough && (kind == "repos" && ps != 10001 || after != "" && ps != 20000) {
						continue
					}
					out = append(out, c05Case{Kind: kind, Stack: "http1", Gen: 10003, ClientN: ps, OmitLink: omit, After: after, ErrAfter: -1})
				}
			}
		}
	}
	return out
}

func c05Check(r *vcore.Run) vcore.Coverage {
	cases := c05Cases(r.Thorough())
	var multi int64
	vcore.ParallelN(len(cases), func(i int) {
		c05Run(r, cases[i])
		if len(cases[i].Items) > cases[i].ClientN {
			atomic.AddInt64(&multi, 1)
		}
	})
	muts := c05MutCases(r.Thorough())
	vcore.ParallelN(len(muts), func(i int) { c05MutRun(r, muts[i]) })
	r.Sample("mutating-consumer", muts[len(muts)/2])
	r.Sample("paging", c05Case{Kind: "repos", Stack: "http1", Items: []string{"a", "b", "c"}, ClientN: 2, OmitLink: true, After: "a", StopAfter: 0, ErrAfter: -1})
	for _, c := range cases {
		if c.Stack == "sub-http1" && len(c.Items) > 4 {
			r.Sample("sub", c)
			break
		}
	}
	r.Assume = []string{
		"backends are recording fakes serving sorted item lists strictly after the start point, optionally failing after j items",
		"an iteration that ends in an error is accepted wherever an error can legitimately arise (injected backend error, client page size above the server limit); otherwise the complete model sequence is required",
		"in-process transport (bound to net/http by C03's loopback run)",
	}
	return vcore.Coverage{States: int64(len(cases) + len(muts)), Transitions: int64(len(cases) + len(muts)), TracesImpl: int64(len(cases) + len(muts)), Evaluations: int64(len(cases) + len(muts)), Nontrivial: multi + int64(len(muts)), Exhaustive: true,
		Rule: "item sets of size 0..5 (quick) / 0..7 (thorough), plus items with URL metacharacters and prefix-sibling names, x client page sizes {1,2,3,1000} x server page limit {none,2} x Link on/off x stacks {direct, 1 hop, 2 hops, ocidebug both sides, Select on either side, Sub on either side, ociunify of disjoint/overlapping/equal members (direct and over HTTP)} x start points (absent, each element, between, beyond, URL metacharacters) x consumer stopping after k x backend error after j, for repositories, tags and referrers; plus consumers that delete or push tags / push repositories from inside the iteration (ocimem direct and over HTTP with page sizes 1, 2, 1000): every (delivery index, target) for one change and every pair of changes, oracle: strictly ascending, nothing that was never there, everything that was there throughout; non-trivial = listings spanning more than one page"}
}

func c05Replay(r *vcore.Run, sub string, raw json.RawMessage) {
	if sub == "mutate" {
		var c c05MutCase
		if json.Unmarshal(raw, &c) == nil {
			c05MutRun(r, c)
		}
		return
	}
	var c c05Case
	if json.Unmarshal(raw, &c) == nil {
		c05Run(r, c)
	}
}
