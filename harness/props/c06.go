package props

import (
	"bytes"
	"context"
	"encoding/json"
	"fmt"
	"io"
	"net/http"
	"net/http/httptest"
	"net/url"
	"regexp"
	"strconv"
	"strings"
	"sync"
	"sync/atomic"

	"cuelabs.dev/go/oci/ociregistry"
	"cuelabs.dev/go/oci/ociregistry/ocimem"
	"cuelabs.dev/go/oci/ociregistry/ociserver"

	"verif/vcore"
)

// C06: the server is total and protocol-conformant on arbitrary requests.
// E3/E4: request lines over a segment menu x queries x headers x bodies,
// against real ocimem states and against a recording backend with scripted
// answers; every backend call and every reader/writer is observed through a
// guarding wrapper.

func init() {
	vcore.Register(&vcore.Prop{ID: "C06", Level: "fault_enumeration", Engine: "E3-env", Check: c06Check, Replay: c06Replay})
}

type c06Req struct {
	Method  string            `json:"method"`
	Path    string            `json:"path"`
	Query   string            `json:"query,omitempty"`
	Headers map[string]string `json:"headers,omitempty"`
	Body    string            `json:"body,omitempty"`
	Backend string            `json:"backend"` // mem, rec-ok, rec-<CODE>, rec-plain
	Opts    string            `json:"server_options,omitempty"`
	// Prior: a request served by the same server (and backend) first; its response is not judged.
	// Whatever the server remembers from it must not leak into the response to the request itself.
	Prior *c06Req `json:"served_before,omitempty"`
}

func c06HTTPRequest(q c06Req) *http.Request {
	u := &url.URL{Path: q.Path, RawQuery: q.Query}
	req := &http.Request{Method: q.Method, URL: u, Header: http.Header{}, Proto: "HTTP/1.1", ProtoMajor: 1, ProtoMinor: 1, Host: "h", RequestURI: u.RequestURI()}
	req = req.WithContext(context.Background())
	req.Body = io.NopCloser(strings.NewReader(q.Body))
	req.ContentLength = int64(len(q.Body))
	for k, v := range q.Headers {
		if k == "Content-Length" {
			n, err := strconv.ParseInt(v, 10, 64)
			if err != nil {
				n = -1 // unknown length (chunked)
			}
			req.ContentLength = n
			continue
		}
		req.Header.Set(k, v)
	}
	return req
}

// c06RepoOfPath: the repository a request path addresses ("" when the path is not of a known shape).
func c06RepoOfPath(path string) string {
	p := strings.TrimPrefix(path, "/v2/")
	if p == path {
		return ""
	}
	for _, word := range []string{"/blobs/", "/manifests/"} {
		if i := strings.Index(p, word); i > 0 {
			return p[:i]
		}
	}
	return ""
}

// c06Guard wraps a backend: validates every argument independently and tracks every reader and writer.
type c06Guard struct {
	ociregistry.Interface
	mu      sync.Mutex
	opened  []string
	closed  map[int]int
	badArgs []string
	misuse  []string // readers / writers used after they were closed
}

type c06Reader struct {
	ociregistry.BlobReader
	g  *c06Guard
	id int
}

// Read refuses a reader that has been closed (ocimem's readers keep working, which would hide the misuse).
func (r c06Reader) Read(p []byte) (int, error) {
	r.g.mu.Lock()
	closed := r.g.closed[r.id] > 0
	if closed {
		r.g.misuse = append(r.g.misuse, r.g.opened[r.id]+": Read after Close")
	}
	r.g.mu.Unlock()
	if closed {
		return 0, fmt.Errorf("read on closed reader")
	}
	return r.BlobReader.Read(p)
}

func (r c06Reader) Close() error {
	r.g.mu.Lock()
	r.g.closed[r.id]++
	r.g.mu.Unlock()
	return r.BlobReader.Close()
}

type c06Writer struct {
	ociregistry.BlobWriter
	g  *c06Guard
	id int
}

func (w c06Writer) done() {
	w.g.mu.Lock()
	w.g.closed[w.id]++
	w.g.mu.Unlock()
}
func (w c06Writer) Write(p []byte) (int, error) {
	w.g.mu.Lock()
	closed := w.g.closed[w.id] > 0
	if closed {
		w.g.misuse = append(w.g.misuse, w.g.opened[w.id]+": Write after Close/Cancel/Commit")
	}
	w.g.mu.Unlock()
	if closed {
		return 0, fmt.Errorf("write on closed writer")
	}
	return w.BlobWriter.Write(p)
}
func (w c06Writer) Close() error  { w.done(); return w.BlobWriter.Close() }
func (w c06Writer) Cancel() error { w.done(); return w.BlobWriter.Cancel() }
func (w c06Writer) Commit(d ociregistry.Digest) (ociregistry.Descriptor, error) {
	desc, err := w.BlobWriter.Commit(d)
	if err == nil {
		w.done() // a committed writer needs no further Close
	}
	return desc, err
}

func (g *c06Guard) check(method string, repo, from, tag, dig *string) {
	g.mu.Lock()
	defer g.mu.Unlock()
	if repo != nil && !refRepo(*repo) {
		g.badArgs = append(g.badArgs, fmt.Sprintf("%s: repository %q", method, *repo))
	}
	if from != nil && !refRepo(*from) {
		g.badArgs = append(g.badArgs, fmt.Sprintf("%s: from-repository %q", method, *from))
	}
	if tag != nil && !refTag(*tag) {
		g.badArgs = append(g.badArgs, fmt.Sprintf("%s: tag %q", method, *tag))
	}
	if dig != nil && !refDigest(*dig) {
		g.badArgs = append(g.badArgs, fmt.Sprintf("%s: digest %q", method, *dig))
	}
}

func (g *c06Guard) rd(kind string, r ociregistry.BlobReader, err error) (ociregistry.BlobReader, error) {
	if err != nil || r == nil {
		return r, err
	}
	g.mu.Lock()
	id := len(g.opened)
	g.opened = append(g.opened, kind)
	g.mu.Unlock()
	return c06Reader{r, g, id}, nil
}

func (g *c06Guard) wr(kind string, w ociregistry.BlobWriter, err error) (ociregistry.BlobWriter, error) {
	if err != nil || w == nil {
		return w, err
	}
	g.mu.Lock()
	id := len(g.opened)
	g.opened = append(g.opened, kind)
	g.mu.Unlock()
	return c06Writer{w, g, id}, nil
}

func sp(s string) *string { return &s }

func (g *c06Guard) GetBlob(ctx context.Context, repo string, d ociregistry.Digest) (ociregistry.BlobReader, error) {
	g.check("GetBlob", &repo, nil, nil, sp(string(d)))
	r, err := g.Interface.GetBlob(ctx, repo, d)
	return g.rd("GetBlob reader", r, err)
}
func (g *c06Guard) GetBlobRange(ctx context.Context, repo string, d ociregistry.Digest, o0, o1 int64) (ociregistry.BlobReader, error) {
	g.check("GetBlobRange", &repo, nil, nil, sp(string(d)))
	r, err := g.Interface.GetBlobRange(ctx, repo, d, o0, o1)
	return g.rd("GetBlobRange reader", r, err)
}
func (g *c06Guard) GetManifest(ctx context.Context, repo string, d ociregistry.Digest) (ociregistry.BlobReader, error) {
	g.check("GetManifest", &repo, nil, nil, sp(string(d)))
	r, err := g.Interface.GetManifest(ctx, repo, d)
	return g.rd("GetManifest reader", r, err)
}
func (g *c06Guard) GetTag(ctx context.Context, repo string, tag string) (ociregistry.BlobReader, error) {
	g.check("GetTag", &repo, nil, &tag, nil)
	r, err := g.Interface.GetTag(ctx, repo, tag)
	return g.rd("GetTag reader", r, err)
}
func (g *c06Guard) ResolveBlob(ctx context.Context, repo string, d ociregistry.Digest) (ociregistry.Descriptor, error) {
	g.check("ResolveBlob", &repo, nil, nil, sp(string(d)))
	return g.Interface.ResolveBlob(ctx, repo, d)
}
func (g *c06Guard) ResolveManifest(ctx context.Context, repo string, d ociregistry.Digest) (ociregistry.Descriptor, error) {
	g.check("ResolveManifest", &repo, nil, nil, sp(string(d)))
	return g.Interface.ResolveManifest(ctx, repo, d)
}
func (g *c06Guard) ResolveTag(ctx context.Context, repo string, tag string) (ociregistry.Descriptor, error) {
	g.check("ResolveTag", &repo, nil, &tag, nil)
	return g.Interface.ResolveTag(ctx, repo, tag)
}
func (g *c06Guard) PushBlob(ctx context.Context, repo string, desc ociregistry.Descriptor, r io.Reader) (ociregistry.Descriptor, error) {
	g.check("PushBlob", &repo, nil, nil, sp(string(desc.Digest)))
	return g.Interface.PushBlob(ctx, repo, desc, r)
}
func (g *c06Guard) PushBlobChunked(ctx context.Context, repo string, chunk int) (ociregistry.BlobWriter, error) {
	g.check("PushBlobChunked", &repo, nil, nil, nil)
	w, err := g.Interface.PushBlobChunked(ctx, repo, chunk)
	return g.wr("PushBlobChunked writer", w, err)
}
func (g *c06Guard) PushBlobChunkedResume(ctx context.Context, repo, id string, off int64, chunk int) (ociregistry.BlobWriter, error) {
	g.check("PushBlobChunkedResume", &repo, nil, nil, nil)
	w, err := g.Interface.PushBlobChunkedResume(ctx, repo, id, off, chunk)
	return g.wr("PushBlobChunkedResume writer", w, err)
}
func (g *c06Guard) MountBlob(ctx context.Context, from, to string, d ociregistry.Digest) (ociregistry.Descriptor, error) {
	g.check("MountBlob", &to, &from, nil, sp(string(d)))
	return g.Interface.MountBlob(ctx, from, to, d)
}
func (g *c06Guard) PushManifest(ctx context.Context, repo, tag string, data []byte, mt string) (ociregistry.Descriptor, error) {
	if tag != "" {
		g.check("PushManifest", &repo, nil, &tag, nil)
	} else {
		g.check("PushManifest", &repo, nil, nil, nil)
	}
	return g.Interface.PushManifest(ctx, repo, tag, data, mt)
}
func (g *c06Guard) DeleteBlob(ctx context.Context, repo string, d ociregistry.Digest) error {
	g.check("DeleteBlob", &repo, nil, nil, sp(string(d)))
	return g.Interface.DeleteBlob(ctx, repo, d)
}
func (g *c06Guard) DeleteManifest(ctx context.Context, repo string, d ociregistry.Digest) error {
	g.check("DeleteManifest", &repo, nil, nil, sp(string(d)))
	return g.Interface.DeleteManifest(ctx, repo, d)
}
func (g *c06Guard) DeleteTag(ctx context.Context, repo string, tag string) error {
	g.check("DeleteTag", &repo, nil, &tag, nil)
	return g.Interface.DeleteTag(ctx, repo, tag)
}
func (g *c06Guard) Tags(ctx context.Context, repo, after string) ociregistry.Seq[string] {
	g.check("Tags", &repo, nil, nil, nil)
	return g.Interface.Tags(ctx, repo, after)
}
func (g *c06Guard) Referrers(ctx context.Context, repo string, d ociregistry.Digest, at string) ociregistry.Seq[ociregistry.Descriptor] {
	g.check("Referrers", &repo, nil, nil, sp(string(d)))
	return g.Interface.Referrers(ctx, repo, d, at)
}

const c06HelloDigest = "sha256:2cf24dba5fb0a30e26e83b2ac5b9e29e1b161e5c1fa7425e73043362938b9824"

// the same digest with upper-case hex: right shape and length, but not a valid digest
const c06UpperDigest = "sha256:2CF24DBA5FB0A30E26E83B2AC5B9E29E1B161E5C1FA7425E73043362938B9824"

func c06MemBackend() ociregistry.Interface {
	m := ocimem.New()
	ctx := context.Background()
	for _, repo := range []string{"a", "a/a"} {
		if _, err := m.PushBlob(ctx, repo, descOf(mtOctet, []byte("hello")), bytes.NewReader([]byte("hello"))); err != nil {
			panic(err)
		}
		for _, tag := range []string{"a", "list", "tags"} {
			if _, err := m.PushManifest(ctx, repo, tag, []byte("hello"), mtOpaque); err != nil {
				panic(err)
			}
		}
		w, err := m.PushBlobChunkedResume(ctx, repo, "u1", 0, 0)
		if err != nil {
			panic(err)
		}
		w.Write([]byte("he"))
	}
	return m
}

func c06Backend(name string) ociregistry.Interface {
	if name == "mem" {
		return c06MemBackend()
	}
	b := newRecBackend()
	b.Repos = []string{"a", "b", "c"}
	b.TagsL = []string{"t", "u", "v"}
	b.Content = []byte("hello")
	b.UploadID = "u1"
	b.Refs = []ociregistry.Descriptor{descOf(mtOpaque, []byte("x"))}
	switch {
	case name == "rec-ok":
	case name == "rec-ok-id1k":
		// upload IDs belong to the backend: a proxying backend uses whole upstream URLs
		b.UploadID = "https://upstream.example/v2/some/repository/blobs/uploads/" + strings.Repeat("0123456789abcdef", 60) + "?_state=" + strings.Repeat("Zz", 20)
	case name == "rec-ok-id5k":
		b.UploadID = strings.Repeat("u", 5000)
	case name == "rec-ok-idodd":
		b.UploadID = "https://up.example/a b/é?x=%2F&y=+#frag"
	case name == "rec-ok-lenient":
		b.LenientRange = true
	case name == "rec-ok-closeerr":
		// everything succeeds except that closing an upload writer fails (a fault at the very end)
		b.CloseErr = fmt.Errorf("backend failed to close the upload writer")
	case name == "rec-plain":
		b.Err = fmt.Errorf("plain backend error")
		b.CommitErr, b.WriteErr = b.Err, b.Err
	case strings.HasPrefix(name, "rec-"):
		for _, e := range stdErrors {
			if e.Code() == strings.TrimPrefix(name, "rec-") {
				b.Err = e
				b.CommitErr, b.WriteErr = e, e
			}
		}
	}
	return b.Funcs()
}

var (
	c06RangeRe        = regexp.MustCompile(`^\d+-\d+$`)
	c06ContentRangeRe = regexp.MustCompile(`^bytes \d+-\d+/\d+$`)
)

// c06UploadSize asks a mem backend how many bytes the upload session u1 of the repository in the path holds.
func c06UploadSize(b ociregistry.Interface, path string) (int64, bool) {
	p := strings.TrimPrefix(path, "/v2/")
	i := strings.Index(p, "/blobs/uploads/")
	if i < 0 || p[i+len("/blobs/uploads/"):] != "dTE" {
		return 0, false
	}
	w, err := b.PushBlobChunkedResume(context.Background(), p[:i], "u1", -1, 0)
	if err != nil {
		return 0, false
	}
	return w.Size(), true
}

func c06Run(r *vcore.Run, q c06Req) {
	g := &c06Guard{Interface: c06Backend(q.Backend), closed: map[int]int{}}
	h := ociserver.New(g, c03ServerOpts(q.Opts))
	req := c06HTTPRequest(q)
	kind := c06Kind(q)
	fp := "C06/" + q.Method + "/" + kind
	if q.Prior != nil {
		fp += "/after-" + q.Prior.Method + "-" + c06Kind(*q.Prior)
		if r.Guard("req", fp+"/prior/"+q.Backend, q, func() { h.ServeHTTP(httptest.NewRecorder(), c06HTTPRequest(*q.Prior)) }) {
			return
		}
	}
	rec := httptest.NewRecorder()
	if r.Guard("req", fp+"/"+q.Backend, q, func() { h.ServeHTTP(rec, req) }) {
		return
	}
	res := rec.Result()
	body, _ := io.ReadAll(res.Body)
	viol := func(what, exp, obs string) {
		r.Violate("req", fp+"/"+what, q, exp, fmt.Sprintf("%s -> %d %v body=%q", obs, res.StatusCode, res.Header, truncate(string(body), 200)))
	}
	if len(g.misuse) > 0 {
		viol("backend-object-used-after-close", "readers and writers are not used once closed", strings.Join(g.misuse, "; "))
	}
	if len(g.badArgs) > 0 {
		viol("backend-called-with-invalid-argument", "only syntactically valid repository, tag and digest arguments", strings.Join(g.badArgs, "; "))
	}
	for id, k := range g.opened {
		if g.closed[id] == 0 {
			viol("not-closed/"+k, "every reader and writer obtained from the backend is closed when the response is complete", k+" never closed")
		}
	}
	st := res.StatusCode
	switch {
	case st >= 400:
		if ct := res.Header.Get("Content-Type"); ct != "application/json" {
			viol("error-not-json", "Content-Type: application/json", ct)
		}
		// headers prepared for a success that did not happen must not go out with the error
		if cl := res.Header.Get("Content-Length"); cl != "" && q.Method != "HEAD" {
			if n, err := strconv.Atoi(cl); err != nil || n != len(body) {
				viol("error-Content-Length-differs-from-body", fmt.Sprint(len(body)), cl)
			}
		}
		var we struct {
			Errors []struct {
				Code    string          `json:"code"`
				Message string          `json:"message"`
				Detail  json.RawMessage `json:"detail"`
			} `json:"errors"`
		}
		if err := json.Unmarshal(body, &we); err != nil || len(we.Errors) == 0 {
			viol("error-body-malformed", "a JSON body with at least one error", string(body))
		} else if want, ok := c07SpecStatus[we.Errors[0].Code]; ok && want != st {
			viol("status-disagrees-with-code/"+we.Errors[0].Code, fmt.Sprint(want), fmt.Sprint(st))
		}
		r.Outcome(fmt.Sprintf("%d", st))
	case st >= 200 && st < 300:
		hd := res.Header
		// a success status never comes with an error document (e.g. an error discovered after the
		// status line was written must not be appended to a 2xx response)
		if bytes.Contains(body, []byte(`"errors"`)) && json.Valid(body) {
			var we struct {
				Errors []json.RawMessage `json:"errors"`
			}
			if json.Unmarshal(body, &we) == nil && len(we.Errors) > 0 {
				viol("error-body-with-success-status", fmt.Sprintf("status %d without an error document", st), string(body))
			}
		}
		needDigest := func() {
			if d := hd.Get("Docker-Content-Digest"); !refDigest(d) {
				viol("missing-or-malformed-Docker-Content-Digest", "a valid digest", d)
			}
		}
		needLocation := func() {
			loc := hd.Get("Location")
			lu, err := url.Parse(loc)
			if loc == "" || err != nil {
				viol("missing-or-malformed-Location", "a Location URL", loc)
				return
			}
			// the Location designates something in the repository the request addressed
			if repo := c06RepoOfPath(q.Path); repo != "" && q.Backend != "rec-ok-id1k" && q.Backend != "rec-ok-idodd" && !strings.HasPrefix(lu.Path, "/v2/"+repo+"/") {
				viol("Location-outside-the-repository-addressed", "a Location under /v2/"+repo+"/", loc)
			}
		}
		needRange := func() {
			if rg := hd.Get("Range"); !c06RangeRe.MatchString(rg) {
				viol("missing-or-malformed-Range", "Range: <start>-<end>", rg)
			}
		}
		if cl := hd.Get("Content-Length"); cl != "" && q.Method != "HEAD" {
			if n, err := strconv.Atoi(cl); err != nil || n != len(body) {
				viol("Content-Length-differs-from-body", fmt.Sprint(len(body)), cl)
			}
		}
		switch kind {
		case "blob":
			if st == 206 && q.Method == "GET" {
				// a partial response describes exactly the bytes it carries
				var a, b, total int64
				cr := hd.Get("Content-Range")
				if _, err := fmt.Sscanf(cr, "bytes %d-%d/%d", &a, &b, &total); err == nil && a == total && b == total-1 && len(body) == 0 {
					// the one shape HTTP cannot express: a range that starts exactly at the end
					viol("empty-tail-range-answered-206-with-inverted-Content-Range", "416 with Content-Range: bytes */total (RFC 7233), or a well-formed partial response", cr)
				} else if err != nil || a > b || b >= total || b-a+1 != int64(len(body)) {
					viol("Content-Range-disagrees-with-body", fmt.Sprintf("bytes a-b/total with b-a+1 = %d and b < total", len(body)), cr)
				}
			}
			if q.Method == "GET" || q.Method == "HEAD" {
				needDigest()
				if hd.Get("Content-Length") == "" {
					viol("missing-Content-Length", "Content-Length", "")
				}
			}
			if st == 206 {
				if cr := hd.Get("Content-Range"); !c06ContentRangeRe.MatchString(cr) {
					viol("missing-or-malformed-Content-Range", "bytes a-b/n", cr)
				}
			}
		case "manifest":
			switch q.Method {
			case "GET", "HEAD":
				if !strings.Contains(q.Opts, "omitdigest") && q.Opts != "all" {
					needDigest()
				}
				if hd.Get("Content-Type") == "" {
					viol("missing-Content-Type", "the manifest media type", "")
				}
				if hd.Get("Content-Length") == "" {
					viol("missing-Content-Length", "Content-Length", "")
				}
			case "PUT":
				needLocation()
				needDigest()
			}
		case "upload-start":
			if st == 202 {
				needLocation()
				needRange()
			} else if st == 201 {
				needLocation()
				needDigest()
			}
		case "upload-session":
			switch q.Method {
			case "PATCH", "GET":
				needLocation()
				needRange()
				if q.Backend == "mem" {
					// the Range header reports what the registry holds (inclusive end; "0-0" for nothing or one byte)
					if size, ok := c06UploadSize(g.Interface, q.Path); ok {
						want := fmt.Sprintf("0-%d", max(size-1, 0))
						if got := hd.Get("Range"); got != want {
							viol("Range-differs-from-upload-size", want, got)
						}
					}
				}
			case "PUT":
				needLocation()
				needDigest()
			}
		case "tags", "catalog", "referrers":
			var v any
			if err := json.Unmarshal(body, &v); err != nil {
				viol("list-body-not-json", "JSON", string(body))
			}
		}
		r.Outcome(fmt.Sprintf("%d/%s", st, kind))
	default:
		r.Outcome(fmt.Sprintf("%d", st))
	}
}

func truncate(s string, n int) string {
	if len(s) > n {
		return s[:n] + "…"
	}
	return s
}

// c06Kind classifies the endpoint family of a path (for the header oracle and fingerprints).
func c06Kind(q c06Req) string {
	p := strings.TrimPrefix(q.Path, "/v2/")
	switch {
	case q.Path == "/v2" || q.Path == "/v2/":
		return "ping"
	case p == "_catalog":
		return "catalog"
	case strings.HasSuffix(p, "/blobs/uploads/") || strings.HasSuffix(p, "/blobs/uploads"):
		return "upload-start"
	}
	parts := strings.Split(p, "/")
	if len(parts) >= 3 {
		switch parts[len(parts)-2] {
		case "blobs":
			return "blob"
		case "uploads":
			return "upload-session"
		case "manifests":
			return "manifest"
		case "tags":
			return "tags"
		case "referrers":
			return "referrers"
		}
	}
	return "other"
}

func c06Requests(thorough bool) []c06Req {
	var out []c06Req
	methods := []string{"GET", "HEAD", "PUT", "POST", "PATCH", "DELETE", "OPTIONS"}
	segs := []string{"", "a", "A", "..", "blobs", "manifests", "uploads", "tags", "list", "referrers", "_catalog", c06HelloDigest, c06UpperDigest, "sha256:xyz", "dTE", "!!",
		strings.Repeat("t", 129), strings.Repeat("n", 256)}
	maxSeg := 3
	if thorough {
		maxSeg = 4
	}
	var paths []string
	var rec func(prefix string, depth int)
	rec = func(prefix string, depth int) {
		paths = append(paths, prefix)
		if depth == maxSeg {
			return
		}
		for _, s := range segs {
			rec(prefix+"/"+s, depth+1)
		}
	}
	rec("/v2", 0)
	paths = append(paths, "", "/", "/v1/a/tags/list", "/v2x", "/v2/a/a/blobs/uploads/dTE", "/v2/a/a/manifests/list", "/v2/a/a/tags/list", "/v2/a/blobs/uploads/dTE/", "/v2/a/a/a/a/a/tags/list")
	backends := []string{"mem", "rec-ok"}
	for _, p := range paths {
		for _, m := range methods {
			for _, b := range backends {
				out = append(out, c06Req{Method: m, Path: p, Backend: b})
			}
		}
	}
	// directed shapes: every request kind with query / header / body menus (k <= 2 non-default header values)
	type shape struct{ method, path string }
	d := c06HelloDigest
	shapes := []shape{
		{"GET", "/v2/a/blobs/" + d}, {"HEAD", "/v2/a/blobs/" + d}, {"DELETE", "/v2/a/blobs/" + d},
		{"GET", "/v2/a/manifests/a"}, {"HEAD", "/v2/a/manifests/a"}, {"PUT", "/v2/a/manifests/a"}, {"DELETE", "/v2/a/manifests/a"},
		{"GET", "/v2/a/manifests/" + d}, {"PUT", "/v2/a/manifests/" + d}, {"DELETE", "/v2/a/manifests/" + d},
		{"POST", "/v2/a/blobs/uploads/"}, {"POST", "/v2/a/blobs/uploads"},
		{"GET", "/v2/a/blobs/uploads/dTE"}, {"PATCH", "/v2/a/blobs/uploads/dTE"}, {"PUT", "/v2/a/blobs/uploads/dTE"},
		{"PATCH", "/v2/a/blobs/uploads/bm9uZQ"}, {"PUT", "/v2/a/blobs/uploads/bm9uZQ"},
		{"GET", "/v2/a/tags/list"}, {"GET", "/v2/_catalog"}, {"GET", "/v2/a/referrers/" + d},
		{"GET", "/v2/a/blobs/" + c06UpperDigest}, {"DELETE", "/v2/a/blobs/" + c06UpperDigest}, {"GET", "/v2/a/manifests/" + c06UpperDigest},
		{"PUT", "/v2/a/manifests/" + c06UpperDigest}, {"GET", "/v2/a/referrers/" + c06UpperDigest},
	}
	queries := []string{"", "n=", "n=0", "n=1", "n=2", "n=-1", "n=x", "n=99999999999999999999", "last=", "last=a", "last=%zz", "n=1&last=a",
		"digest=", "digest=" + d, "digest=sha256:xyz", "digest=" + c06UpperDigest, "mount=" + c06UpperDigest + "&from=a", "mount=" + d, "mount=" + d + "&from=a", "mount=" + d + "&from=A!", "mount=bad&from=a", "from=a", "digest=" + d + "&mount=" + d,
		"%zz", "a=b;c=d", "n=1&n=2"}
	hmenu := map[string][]string{
		// the stored blob is "hello" (5 bytes): last-byte positions just below, at and beyond the size
		"Range": {"bytes=0-0", "bytes=0-", "bytes=1-3", "bytes=3-1", "bytes=-1", "bytes=9-", "bytes=0-0,2-3", "garbage", "bytes=", "bytes=a-b", "bytes=0-99999999999999999999",
			"bytes=0-3", "bytes=0-4", "bytes=0-5", "bytes=1-5", "bytes=4-4", "bytes=4-5", "bytes=5-5", "bytes=5-", "bytes=4-", "bytes=2-6"},
		"Content-Range":  {"0-0", "0-1", "2-3", "1-0", "5-4", "3-1", "garbage", "-", "0-", "-5", "0-99999999999999999999", "2-6"},
		"Content-Length": {"0", "1", "5", "x"},
		"Content-Type":   {mtOpaque, mtImage, mtIndex, "garbage", "application/vnd.oci.image.manifest.v1+json; charset=utf-8"},
	}
	bodies := []string{"", "x", "hello", `{"a":1}`, `{"subject":{"digest":"` + d + `","size":5,"mediaType":"` + mtOpaque + `"}}`, `{"layers":`, `{"subject":5}`}
	recBackends := []string{"mem", "rec-ok", "rec-plain"}
	for _, e := range stdErrors {
		recBackends = append(recBackends, "rec-"+e.Code())
	}
	optsMenu := []string{"", "omitdigest", "all"}
	hnames := []string{"Range", "Content-Range", "Content-Length", "Content-Type"}
	for _, sh := range shapes {
		bks := recBackends
		if k := c06Kind(c06Req{Path: sh.path}); k == "upload-start" || k == "upload-session" {
			// backends whose own upload IDs are long or URL-like (the server turns them into Location headers)
			bks = append(append([]string(nil), recBackends...), "rec-ok-id1k", "rec-ok-id5k", "rec-ok-idodd", "rec-ok-closeerr")
		}
		if c06Kind(c06Req{Path: sh.path}) == "blob" && sh.method == "GET" {
			bks = append(append([]string(nil), recBackends...), "rec-ok-lenient")
		}
		for _, b := range bks {
			for _, opts := range optsMenu {
				if opts != "" && b != "mem" && b != "rec-ok" {
					continue
				}
				if (strings.HasPrefix(b, "rec-ok-id") || b == "rec-ok-closeerr" || b == "rec-ok-lenient") && opts != "" {
					continue
				}
				for _, qs := range queries {
					for _, body := range bodies {
						if !thorough && qs != "" && body != "" && body != "hello" {
							continue
						}
						base := c06Req{Method: sh.method, Path: sh.path, Query: qs, Body: body, Backend: b, Opts: opts}
						out = append(out, base)
						if qs != "" && !strings.HasPrefix(qs, "digest="+d) {
							continue
						}
						for i, h1 := range hnames {
							for _, v1 := range hmenu[h1] {
								r1 := base
								r1.Headers = map[string]string{h1: v1}
								out = append(out, r1)
								if !thorough && b != "mem" && b != "rec-ok" {
									continue
								}
								for _, h2 := range hnames[i+1:] {
									for _, v2 := range hmenu[h2] {
										if !thorough && (body != "hello" && body != "") {
											continue
										}
										r2 := base
										r2.Headers = map[string]string{h1: v1, h2: v2}
										out = append(out, r2)
									}
								}
							}
						}
					}
				}
			}
		}
	}
	return out
}

// c06Pairs: upload requests in one repository served after an upload request in another one, the two
// sessions bearing the same ID (upload IDs are scoped to a repository: a backend that numbers sessions per
// repository, or a client that names its own).
func c06Pairs() []c06Req {
	var out []c06Req
	put := "digest=" + c06HelloDigest
	mk := func(repo string) []c06Req {
		return []c06Req{
			{Method: "POST", Path: "/v2/" + repo + "/blobs/uploads/"},
			{Method: "PATCH", Path: "/v2/" + repo + "/blobs/uploads/dTE", Body: "hello", Headers: map[string]string{"Content-Range": "0-4"}},
			{Method: "PATCH", Path: "/v2/" + repo + "/blobs/uploads/dTE", Body: "hello"},
			{Method: "GET", Path: "/v2/" + repo + "/blobs/uploads/dTE"},
			{Method: "PUT", Path: "/v2/" + repo + "/blobs/uploads/dTE", Query: put, Body: "hello"},
		}
	}
	for _, bk := range []string{"mem", "rec-ok"} {
		for _, prior := range mk("a") {
			for _, repo := range []string{"b", "a", "a/b"} {
				for _, main := range mk(repo) {
					p := prior
					p.Backend = bk
					main.Backend = bk
					main.Prior = &p
					out = append(out, main)
				}
			}
		}
	}
	return out
}

func c06Check(r *vcore.Run) vcore.Coverage {
	reqs := append(c06Requests(r.Thorough()), c06Pairs()...)
	var handled int64
	vcore.ParallelN(len(reqs), func(i int) {
		c06Run(r, reqs[i])
		if c06Kind(reqs[i]) != "other" {
			atomic.AddInt64(&handled, 1)
		}
	})
	r.Sample("request-line", reqs[len(reqs)/50])
	r.Sample("directed", reqs[len(reqs)-len(reqs)/3])
	r.Assume = []string{
		"backends honour the interface contract (valid upload IDs, descriptors consistent with the bytes they serve); arbitrary backend state and every standard error are covered, arbitrary backend misbehaviour is not",
		"expected statuses come from a table copied from the distribution specification",
		"a writer counts as closed after Close, Cancel or a successful Commit",
	}
	return vcore.Coverage{Evaluations: int64(len(reqs)), Nontrivial: handled, Exhaustive: true,
		Rule: fmt.Sprintf("request lines: 7 methods x every path of <= %d segments over an 18-entry menu (empty, valid/upper-case/dot-dot names, the routing words, valid and malformed digests, a live upload id, 129-char tag, 256-char name) against a seeded ocimem and a recording backend; directed shapes of all 20 request kinds x 24 query strings x 7 bodies x headers Range/Content-Range/Content-Length/Content-Type from boundary menus (<= 2 non-default headers) x backends {ocimem, recording ok, plain error, each of the 15 standard errors; for upload requests also backends issuing 1 KiB URL-like, 5 KiB and oddly-charactered upload IDs} x server option sets; plus every pair of upload requests (start, chunk with and without Content-Range, status, completion) where the first addresses repository a and the second the same session ID in repository b, a or a/b, on one server; non-trivial = requests that reach a handler family", map[bool]int{false: 3, true: 4}[r.Thorough()])}
}

func c06Replay(r *vcore.Run, sub string, raw json.RawMessage) {
	var q c06Req
	if json.Unmarshal(raw, &q) == nil {
		c06Run(r, q)
	}
}
