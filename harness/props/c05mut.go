package props

import (
	"context"
	"fmt"
	"strings"

	"cuelabs.dev/go/oci/ociregistry"
	"cuelabs.dev/go/oci/ociregistry/ocimem"

	"verif/vcore"
)

// A consumer that changes the registry from inside the iteration (a prune loop deleting tags as they
// go by, a job that tags while it lists). The listing then is a listing of contents that move; what the
// statement still fixes is: ascending order without duplicates, nothing delivered that was never there,
// and every item that was there from start to end delivered exactly once, without an error.

type c05Mutation struct {
	At     int    `json:"at_delivery"` // performed while the consumer handles its At-th item (0-based)
	Op     string `json:"op"`          // delete, push
	Target string `json:"target"`
}

type c05MutCase struct {
	Kind    string        `json:"kind"` // tags, repos
	Stack   string        `json:"stack"`
	Items   []string      `json:"items"`
	ClientN int           `json:"client_page_size"`
	After   string        `json:"start_after"`
	Muts    []c05Mutation `json:"mutations_from_inside_the_consumer"`
}

func c05MutRun(r *vcore.Run, c c05MutCase) {
	ctx := context.Background()
	fp := fmt.Sprintf("C05/%s/%s/registry-changed-from-inside-the-consumer", c.Kind, c.Stack)
	r.Guard("mutate", fp, c, func() {
		m := ocimem.New()
		push := func(it string) {
			var err error
			if c.Kind == "repos" {
				_, err = m.PushManifest(ctx, it, "t", []byte(`{"x":1}`), mtOpaque)
			} else {
				_, err = m.PushManifest(ctx, "r", it, []byte(`{"x":1}`), mtOpaque)
			}
			if err != nil {
				panic(err)
			}
		}
		for _, it := range c.Items {
			push(it)
		}
		var reg ociregistry.Interface = m
		if c.Stack == "http1-mem" {
			reg = c05HTTP(m, c05Case{ClientN: c.ClientN})
		}
		var seq ociregistry.Seq[string]
		if c.Kind == "repos" {
			seq = reg.Repositories(ctx, c.After)
		} else {
			seq = reg.Tags(ctx, "r", c.After)
		}
		var got []string
		var gotErr error
		n := 0
		seq(func(s string, err error) bool {
			if err != nil {
				gotErr = err
				return false
			}
			got = append(got, s)
			for _, mu := range c.Muts {
				if mu.At != n {
					continue
				}
				switch mu.Op {
				case "delete":
					if err := reg.DeleteTag(ctx, "r", mu.Target); err != nil {
						panic(fmt.Sprintf("DeleteTag(%s) from inside the consumer: %v", mu.Target, err))
					}
				case "push":
					push(mu.Target)
				}
			}
			n++
			return true
		})
		everThere := map[string]bool{}
		always := map[string]bool{}
		for _, it := range c.Items {
			everThere[it] = true
			always[it] = true
		}
		for _, mu := range c.Muts {
			if mu.Op == "push" {
				everThere[mu.Target] = true
			} else {
				delete(always, mu.Target)
			}
		}
		text := fmt.Sprintf("%q err=%v", got, gotErr)
		if gotErr != nil {
			r.Violate("mutate", fp+"/error", c, "a listing", text)
			return
		}
		seen := map[string]bool{}
		for i, s := range got {
			if !everThere[s] {
				r.Violate("mutate", fp+"/item-that-was-never-there", c, "only items the registry held at some time", text)
				return
			}
			if i > 0 && !(got[i-1] < s) {
				r.Violate("mutate", fp+"/unordered-or-duplicate", c, "strictly ascending", text)
				return
			}
			if c.After != "" && !(s > c.After) {
				r.Violate("mutate", fp+"/not-after-start", c, "strictly after "+c.After, text)
				return
			}
			seen[s] = true
		}
		var missing []string
		for _, it := range c.Items {
			if always[it] && it > c.After && !seen[it] {
				missing = append(missing, it)
			}
		}
		if len(missing) > 0 {
			r.Violate("mutate", fp+"/item-present-throughout-not-delivered", c, "every item that was there from start to end: "+strings.Join(missing, ","), text)
		}
		r.Outcome("mutating-consumer-ok")
	})
}

func c05MutCases(thorough bool) []c05MutCase {
	var cases []c05MutCase
	n := 5
	if thorough {
		n = 6
	}
	items := []string{"v1", "v2", "v3", "v4", "v5", "v6"}[:n]
	targets := append(append([]string(nil), items...), "v0", "v25", "v9") // existing ones, and new ones before / between / after
	for _, kind := range []string{"tags", "repos"} {
		for _, stack := range []string{"mem", "http1-mem"} {
			pages := []int{1000}
			if stack == "http1-mem" {
				pages = []int{1, 2, 1000}
			}
			for _, page := range pages {
				for _, after := range []string{"", "v1"} {
					var single []c05Mutation
					for at := 0; at < n; at++ {
						for _, tg := range targets {
							op := "push"
							if tg >= "v1" && tg <= "v6" && len(tg) == 2 {
								op = "delete"
							}
							if kind == "repos" && op == "delete" {
								continue // a repository cannot be deleted through the interface
							}
							single = append(single, c05Mutation{At: at, Op: op, Target: tg})
						}
					}
					for i, m1 := range single {
						cases = append(cases, c05MutCase{Kind: kind, Stack: stack, Items: items, ClientN: page, After: after, Muts: []c05Mutation{m1}})
						if !thorough && stack != "mem" {
							continue
						}
						for _, m2 := range single[i+1:] {
							if m2.Target == m1.Target {
								continue
							}
							cases = append(cases, c05MutCase{Kind: kind, Stack: stack, Items: items, ClientN: page, After: after, Muts: []c05Mutation{m1, m2}})
						}
					}
				}
			}
		}
	}
	return cases
}
