package props

import (
	"bytes"
	"context"
	"encoding/json"
	"fmt"
	"io"
	"net/http"
	"reflect"
	"strings"
	"sync/atomic"
	"time"

	"cuelabs.dev/go/oci/ociregistry/ociauth"

	"verif/vcore"
	"verif/vsync"
)

// C11: credentials stay confined; the auth flow is bounded and non-intrusive.
// E3 + E2: request histories over two hosts with distinct secrets x challenge
// shapes x token-server faults x credential kinds x request bodies; an online
// secret-flow monitor sees everything that reaches the network.

func init() {
	vcore.Register(&vcore.Prop{ID: "C11", Level: "fault_enumeration", Engine: "E3-env", Check: c11Check, Replay: c11Replay})
}

type c11Event struct {
	Host     string `json:"host"`
	Required string `json:"required"`
	Body     string `json:"body"` // none, getbody, nogetbody
}

type c11Case struct {
	Hosts   []*authHostCfg `json:"hosts"`
	History []c11Event     `json:"history"`
}

type trackedBody struct {
	r      io.Reader
	closed *int32
}

func (b trackedBody) Read(p []byte) (int, error) { return b.r.Read(p) }
func (b trackedBody) Close() error               { atomic.AddInt32(b.closed, 1); return nil }

func c11ChallengeShapes(self *authHostCfg, otherRealm, otherHost string) map[string][]string {
	good := fmt.Sprintf(`Bearer realm="https://%s/token",service="svc",scope="repository:x:pull"`, self.realmHost())
	return map[string][]string{
		"bearer":             {good},
		"basic":              {`Basic realm="registry"`},
		"bearer+basic-lines": {good, `Basic realm="registry"`},
		"basic+bearer-lines": {`Basic realm="registry"`, good},
		"unknown-scheme":     {`Negotiate abcdef`},
		"unknown+bearer":     {`Negotiate abcdef`, good},
		// well-formed challenges of schemes the transport does not speak: nobody asked for Basic or Bearer
		"digest-only":    {`Digest realm="registry", nonce="abc", qop="auth"`},
		"negotiate+ntlm": {`Negotiate`, `NTLM`},
		"digest+basic":   {`Digest realm="registry", nonce="abc"`, `Basic realm="registry"`},
		"escapes":        {fmt.Sprintf(`Bearer realm="https://%s/to\"ken",service="s\\vc",scope="repository:x:pull"`, self.realmHost())},
		// quoted-pairs that a Go-literal unquoter would read differently: \x2e is the two octets "x2e" minus
		// nothing - i.e. 'x','2','e' - not a dot; \056 likewise; the realm's host is spelled with them
		"escapes-not-go-literals": {fmt.Sprintf(`Bearer realm="https://%s\x2eelsewhere.example/token",service="svc",scope="repository:x:pull"`, self.realmHost())},
		"escapes-octal-lookalike": {fmt.Sprintf(`Bearer realm="https://%s\056elsewhere.example/to\nken",service="svc",scope="repository:x:pull"`, self.realmHost())},
		"missing-realm":           {`Bearer service="svc",scope="repository:x:pull"`},
		"unterminated-quote":      {fmt.Sprintf(`Bearer realm="https://%s/token`, self.realmHost())},
		"empty":                   {``},
		"none":                    {},
		"case-variants":           {fmt.Sprintf(`bEARER REALM="https://%s/token", Service=svc , scope="repository:x:pull"`, self.realmHost())},
		"unquoted-url":            {fmt.Sprintf(`Bearer realm=https://%s/token`, self.realmHost())},
		"realm-of-other-host":     {fmt.Sprintf(`Bearer realm="https://%s/token",service="svc",scope="repository:x:pull"`, otherRealm)},
		"realm-is-other-registry": {fmt.Sprintf(`Bearer realm="https://%s/v2/token",service="svc"`, otherHost)},
		"trailing-garbage":        {good + ` ;;;`},
		"basic-no-params":         {`Basic`},
		"comma-only":              {`Bearer ,`},
	}
}

type c11Monitor struct {
	viols [][3]string
}

// c11Online is called for every request that reaches the network, before it is answered.
func (n *authNet) c11Online(m *c11Monitor, x sentReq) {
	for host, c := range n.hosts {
		for name, secret := range n.secretsOf(host) {
			if !x.carries(secret) {
				continue
			}
			kind := strings.SplitN(name, ":", 2)[0]
			ok := false
			switch {
			case n.named[host][x.Dest] && !(x.Dest == host && x.Path == "/v2/x/manifests/t"):
				// a realm named by a challenge of the owning host (wherever it lives)
				switch kind {
				case "password":
					ok = strings.HasPrefix(x.Auth, "Basic ")
				case "refresh":
					ok = x.Method == "POST"
				default:
					ok = false // access tokens are never sent to token servers
				}
			case x.Kind == "registry" && x.Dest == host:
				switch kind {
				case "password":
					ok = n.basicSeen[host] && strings.HasPrefix(x.Auth, "Basic ")
				case "refresh":
					ok = false // refresh tokens go to token realms only
				case "static", "token":
					ok = strings.HasPrefix(x.Auth, "Bearer ")
				}
			}
			if !ok {
				why := fmt.Sprintf("%s of %s sent to %s %s (%s %s) basicChallengeSeen=%v namedRealms=%v", kind, c.Host, x.Kind, x.Dest, x.Method, x.Path, n.basicSeen[host], sortedKeys(n.named[host]))
				dest := "its-own-registry"
				if x.Dest != host {
					dest = "another-host-or-unnamed-realm"
				}
				if x.Dest == "elsewhere.example" {
					// where the named realm redirected the client to: identified separately, with the method
					// (a re-sent POST body is a different matter from a copied header)
					dest = "redirect-target-of-the-realm/" + x.Method
				}
				m.viols = append(m.viols, [3]string{fmt.Sprintf("secret-leak/%s/to-%s-%s", kind, x.Kind, dest), "secrets stay confined", why})
			}
		}
	}
}

func c11Run(r *vcore.Run, c c11Case) {
	authClockMu.Lock()
	defer authClockMu.Unlock()
	var cp []*authHostCfg
	for _, h := range c.Hosts {
		hh := *h
		cp = append(cp, &hh)
	}
	n := newAuthNet(cp)
	mon := &c11Monitor{}
	// wrap the network so that the online monitor sees each request first
	var netRT http.RoundTripper = roundTripFunc(func(req *http.Request) (*http.Response, error) {
		var body []byte
		if req.Body != nil {
			body, _ = io.ReadAll(req.Body)
			req.Body.Close()
			req.Body = io.NopCloser(bytes.NewReader(body))
		}
		if req.URL.Host == "" || req.URL.Scheme == "" {
			// nothing leaves the machine for a URL without scheme or host
			return nil, fmt.Errorf("unsupported protocol scheme %q", req.URL.Scheme)
		}
		kind := "unknown"
		if n.hosts[req.URL.Host] != nil {
			kind = "registry"
		} else if n.realms[req.URL.Host] != nil {
			kind = "token"
		}
		n.c11Online(mon, sentReq{Dest: req.URL.Host, Kind: kind, Method: req.Method, Path: req.URL.Path, Auth: req.Header.Get("Authorization"), Body: string(body), Query: req.URL.RawQuery})
		return n.RoundTrip(req)
	})
	tr := ociauth.NewStdTransport(ociauth.StdTransportParams{Config: n, Transport: netRT})
	fp := "C11"
	viol := func(kind, exp, obs string) { r.Violate("hist", fp+"/"+kind, c, exp, obs) }
	for i, ev := range c.History {
		ctx := ociauth.ContextWithRequestInfo(context.Background(), ociauth.RequestInfo{RequiredScope: ociauth.ParseScope(ev.Required)})
		method := "GET"
		var bodyClosed int32
		var req *http.Request
		var extraBodies []*int32
		payload := []byte("payload")
		switch ev.Body {
		case "none":
			req, _ = http.NewRequestWithContext(ctx, method, "https://"+ev.Host+"/v2/x/manifests/t", nil)
		default:
			method = "PUT"
			req, _ = http.NewRequestWithContext(ctx, method, "https://"+ev.Host+"/v2/x/manifests/t", nil)
			req.Body = trackedBody{bytes.NewReader(payload), &bodyClosed}
			req.ContentLength = int64(len(payload))
			if ev.Body == "getbody" {
				// every body GetBody hands out is a body of its own: each must be closed by whoever asked for it
				req.GetBody = func() (io.ReadCloser, error) {
					c := new(int32)
					extraBodies = append(extraBodies, c)
					return trackedBody{bytes.NewReader(payload), c}, nil
				}
			}
		}
		req.Header.Set("X-Demand", ev.Required)
		req.Header.Set("X-Caller", "keep")
		beforeHeader := req.Header.Clone()
		beforeURL := req.URL.String()
		beforeBody := req.Body
		beforeGetBody := req.GetBody != nil
		n.trip++
		trip := n.trip
		n.tripHost[trip] = ev.Host
		var resp *http.Response
		var err error
		if r.Guard("hist", fp+"/RoundTrip", c, func() { resp, err = tr.RoundTrip(req) }) {
			return
		}
		// (e) the caller's request is unmodified
		if !reflect.DeepEqual(req.Header, beforeHeader) {
			viol("caller-request-modified/header", fmt.Sprint(beforeHeader), fmt.Sprint(req.Header))
		}
		if req.URL.String() != beforeURL || req.Body != beforeBody || (req.GetBody != nil) != beforeGetBody {
			viol("caller-request-modified/url-or-body", beforeURL, req.URL.String())
		}
		// (f) the body is closed on every path
		if ev.Body != "none" && atomic.LoadInt32(&bodyClosed) == 0 {
			viol("request-body-not-closed/"+c11Outcome(resp, err), "Close called on the request body", fmt.Sprintf("never closed (resp=%v err=%v)", resp != nil, err))
		}
		for k, c := range extraBodies {
			if atomic.LoadInt32(c) == 0 {
				viol("body-from-GetBody-not-closed/"+c11Outcome(resp, err), "every body obtained from GetBody is closed", fmt.Sprintf("body %d of %d never closed", k+1, len(extraBodies)))
				break
			}
		}
		// (d) bounded attempts, and 401 after a fresh token surfaces as 403 DENIED
		regTrips, tokenReqs := 0, 0
		lastStatus := 0
		for _, x := range n.sent {
			if x.Trip != trip {
				continue
			}
			if x.Dest == ev.Host && x.Path == "/v2/x/manifests/t" {
				regTrips++
				lastStatus = x.Status
			} else {
				tokenReqs++
			}
		}
		if regTrips > 2 {
			viol("more-than-two-attempts", "at most two attempts against the registry", fmt.Sprintf("%d: %s", regTrips, trafficText(n, trip)))
		}
		if err == nil && resp != nil {
			data, _ := io.ReadAll(resp.Body)
			resp.Body.Close()
			if regTrips == 2 && lastStatus == 401 && tokenReqs > 0 {
				// second attempt with a freshly issued token was refused
				freshBearer := false
				for _, x := range n.sent {
					if x.Trip == trip && x.Dest == ev.Host && x.Path == "/v2/x/manifests/t" && strings.HasPrefix(x.Auth, "Bearer ") {
						freshBearer = true
					}
				}
				if freshBearer && (resp.StatusCode != 403 || !strings.Contains(string(data), `"DENIED"`)) {
					viol("401-after-fresh-token-not-403-denied", "403 with code DENIED", fmt.Sprintf("%d %s", resp.StatusCode, truncate(string(data), 100)))
				}
			}
		}
		_ = i
		r.Outcome(fmt.Sprintf("reg=%d tok=%d %s", regTrips, tokenReqs, c11Outcome(resp, err)))
	}
	for _, v := range mon.viols {
		viol(v[0], v[1], v[2])
	}
	vsync.SetNow(time.Time{})
}

func c11Outcome(resp *http.Response, err error) string {
	if err != nil {
		return "error"
	}
	if resp == nil {
		return "nil"
	}
	return fmt.Sprint(resp.StatusCode)
}

type roundTripFunc func(*http.Request) (*http.Response, error)

func (f roundTripFunc) RoundTrip(r *http.Request) (*http.Response, error) { return f(r) }

func c11Cases(thorough bool) []c11Case {
	a0 := &authHostCfg{Host: "a.example", Scheme: "raw", Creds: "basic", TokenMode: "grant", Lifetime: 2}
	b0 := &authHostCfg{Host: "b.example:5000", Scheme: "bearer", Challenge: "exact", Creds: "refresh", TokenMode: "grant", Lifetime: 2}
	shapes := c11ChallengeShapes(a0, b0.realmHost(), b0.Host)
	faults := []string{"", "401", "403", "500", "302", "badjson", "notoken", "empty200", "302-elsewhere", "303-elsewhere", "307-elsewhere", "308-elsewhere"}
	creds := []string{"none", "basic", "refresh", "static", "basic+refresh"}
	events := []c11Event{}
	for _, h := range []string{"a.example", "b.example:5000"} {
		for _, rq := range []string{"repository:x:pull", "repository:x:push"} {
			for _, body := range []string{"none", "getbody", "nogetbody"} {
				if rq == "repository:x:push" && body == "none" {
					continue
				}
				events = append(events, c11Event{Host: h, Required: rq, Body: body})
			}
		}
	}
	// a second arrangement: the other registry lives on the SAME host name, different port
	var samePortEvents []c11Event
	for _, e := range events {
		if e.Host == "b.example:5000" {
			e.Host = "a.example:5000"
		}
		samePortEvents = append(samePortEvents, e)
	}
	var samePortHists [][]c11Event
	for _, e1 := range samePortEvents {
		for _, e2 := range samePortEvents {
			if e1.Body != "nogetbody" && e2.Body != "nogetbody" && e1.Host != e2.Host {
				samePortHists = append(samePortHists, []c11Event{e1, e2})
				samePortHists = append(samePortHists, []c11Event{e1, e2, e1})
			}
		}
	}
	var hists [][]c11Event
	for _, e1 := range events {
		hists = append(hists, []c11Event{e1})
		for _, e2 := range events {
			hists = append(hists, []c11Event{e1, e2})
			if thorough {
				for _, e3 := range events {
					if e3.Body != "nogetbody" {
						hists = append(hists, []c11Event{e1, e2, e3})
					}
				}
			}
		}
	}
	var out []c11Case
	for _, sn := range sortedKeys(shapes) {
		for _, fault := range faults {
			for _, cr := range creds {
				for _, tm := range []string{"grant", "nopost"} {
					if tm == "nopost" && !strings.Contains(cr, "refresh") {
						continue
					}
					for _, failCfg := range []bool{false, true} {
						if failCfg && (fault != "" || sn != "bearer") {
							continue
						}
						a := *a0
						a.RawChal = shapes[sn]
						a.Challenge = sn
						a.Creds, a.TokenFault, a.TokenMode, a.FailCfg = cr, fault, tm, failCfg
						for _, bScheme := range []string{"bearer", "basic"} {
							if bScheme == "basic" && !thorough && fault != "" {
								continue
							}
							b := *b0
							b.Scheme = bScheme
							if bScheme == "basic" {
								b.Creds = "basic"
							}
							for _, h := range hists {
								out = append(out, c11Case{Hosts: []*authHostCfg{&a, &b}, History: h})
							}
							if bScheme == "bearer" && fault == "" && sn == "bearer" && !failCfg {
								// a registry whose second challenge (answering the fresh token) asks for more than its first
								be := b
								be.Challenge = "escalating"
								for _, h := range hists {
									if len(h) <= 2 {
										out = append(out, c11Case{Hosts: []*authHostCfg{&a, &be}, History: h})
									}
								}
							}
							if fault == "" && (sn == "bearer" || sn == "basic" || sn == "bearer+basic-lines") && !failCfg {
								b2 := b
								b2.Host = "a.example:5000"
								for _, h := range samePortHists {
									out = append(out, c11Case{Hosts: []*authHostCfg{&a, &b2}, History: h})
								}
							}
						}
					}
				}
			}
		}
	}
	// two registries behind ONE token service (same realm, same service name, same scopes), each with its
	// own password: whatever the transport remembers about that service must stay per registry
	for _, cr := range []string{"basic", "basic+refresh", "refresh"} {
		sa := &authHostCfg{Host: "a.example", Scheme: "bearer", Challenge: "exact", Creds: cr, TokenMode: "grant", Lifetime: 60, RealmHost: "auth-shared.example", Service: "svc-shared"}
		sb := &authHostCfg{Host: "b.example:5000", Scheme: "bearer", Challenge: "exact", Creds: cr, TokenMode: "grant", Lifetime: 60, RealmHost: "auth-shared.example", Service: "svc-shared"}
		ea := c11Event{Host: "a.example", Required: "repository:x:pull", Body: "none"}
		eb := c11Event{Host: "b.example:5000", Required: "repository:x:pull", Body: "none"}
		for _, h := range [][]c11Event{{ea, eb}, {eb, ea}, {ea, eb, ea}, {ea, ea, eb, eb}} {
			out = append(out, c11Case{Hosts: []*authHostCfg{sa, sb}, History: h})
		}
	}
	// two registries of the same make, each naming its token endpoint by a path on itself: the very same
	// challenge text from two hosts means two different realms (a client may refuse a relative realm, but
	// whatever it does with it stays with the host that sent it)
	for _, cr := range []string{"basic", "basic+refresh", "refresh"} {
		for _, chal := range []string{`Bearer realm="/service/token",service="registry"`, `Bearer realm="//auth-a.example/token",service="registry"`, `Bearer realm="token",service="registry",scope="repository:x:pull"`} {
			ra := &authHostCfg{Host: "a.example", Scheme: "raw", RawChal: []string{chal}, Challenge: "relative-realm", Creds: cr, TokenMode: "grant", Lifetime: 60}
			rb := &authHostCfg{Host: "b.example:5000", Scheme: "raw", RawChal: []string{chal}, Challenge: "relative-realm", Creds: cr, TokenMode: "grant", Lifetime: 60}
			ea := c11Event{Host: "a.example", Required: "repository:x:pull", Body: "none"}
			eb := c11Event{Host: "b.example:5000", Required: "repository:x:pull", Body: "none"}
			for _, h := range [][]c11Event{{ea, eb}, {eb, ea}, {ea, eb, ea}, {eb, ea, eb}} {
				out = append(out, c11Case{Hosts: []*authHostCfg{ra, rb}, History: h})
			}
		}
	}
	return out
}

func c11Check(r *vcore.Run) vcore.Coverage {
	cases := c11Cases(r.Thorough())
	var deviated int64
	// the virtual clock is global: run sequentially but cheaply (no real network, no sleeping)
	vcore.ParallelN(len(cases), func(i int) {
		c11Run(r, cases[i])
		if cases[i].Hosts[0].Challenge != "bearer" || cases[i].Hosts[0].TokenFault != "" {
			atomic.AddInt64(&deviated, 1)
		}
	})
	r.Sample("case", cases[len(cases)/3])
	r.Sample("case-2", cases[len(cases)-7])
	r.Assume = []string{
		"two registries with distinct passwords, refresh tokens, static tokens and token realms on third hosts; a secret 'appears' in a request if it occurs in the Authorization header (also inside Basic), the body, the query or the path",
		"a password may go to a realm named by a challenge of the host that owns it, or as Basic to its own registry after that registry has sent a Basic challenge; refresh tokens only in POST bodies to such realms; access tokens only as Bearer to their own registry",
		"HTTP redirects of token requests are outside the model (3xx answers carry no Location)",
		"request bodies: none / with GetBody / without GetBody; the fake network closes a body it receives",
	}
	return vcore.Coverage{Evaluations: int64(len(cases)), Nontrivial: deviated, Exhaustive: true,
		Rule: fmt.Sprintf("%d histories of <= %d requests over two hosts (2 required scopes x 3 body kinds) x 18 Www-Authenticate shapes of host A (Basic, Bearer, both orders on separate lines, unknown scheme, quoted strings with escapes, missing realm, unterminated quote, empty, none, case variants, unquoted URL, realm of the other host, realm pointing at the other registry, trailing garbage) x 8 token-server answers (good, 401, 403, 500, 302, malformed JSON, JSON without token, empty 200) x 5 credential kinds x token server with/without POST x config lookup failure; non-trivial = cases with a deviated challenge or token answer", len(cases), map[bool]int{false: 2, true: 3}[r.Thorough()])}
}

func c11Replay(r *vcore.Run, sub string, raw json.RawMessage) {
	var c c11Case
	if json.Unmarshal(raw, &c) == nil {
		c11Run(r, c)
	}
}
