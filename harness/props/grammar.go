package props

import "strings"

// Hand-written recognisers of the reference grammar, independent of ociref's
// regular expressions and of go-digest. They are the oracle for C17 and the
// argument validator for C06/C13.

func isLowerAlnum(c byte) bool { return ('a' <= c && c <= 'z') || ('0' <= c && c <= '9') }
func isAlnum(c byte) bool {
	return isLowerAlnum(c) || ('A' <= c && c <= 'Z')
}

// refPathComponent: alnum+ ( sep alnum+ )*, sep = "." | "_" | "__" | "-"+
func refPathComponent(s string) bool {
	i, n := 0, len(s)
	alnumRun := func() bool {
		j := i
		for i < n && isLowerAlnum(s[i]) {
			i++
		}
		return i > j
	}
	if !alnumRun() {
		return false
	}
	for i < n {
		switch s[i] {
		case '.':
			i++
		case '_':
			i++
			if i < n && s[i] == '_' {
				i++
			}
		case '-':
			for i < n && s[i] == '-' {
				i++
			}
		default:
			return false
		}
		if !alnumRun() {
			return false
		}
	}
	return true
}

// refRepo: syntactic validity of a repository name (no length limit, as the predicate).
func refRepo(s string) bool {
	if s == "" {
		return false
	}
	for _, c := range strings.Split(s, "/") {
		if !refPathComponent(c) {
			return false
		}
	}
	return true
}

func refDomainComponent(s string) bool {
	if s == "" {
		return false
	}
	for i := 0; i < len(s); i++ {
		if !isAlnum(s[i]) && s[i] != '-' {
			return false
		}
	}
	return s[0] != '-' && s[len(s)-1] != '-'
}

func allDigits(s string) bool {
	if s == "" {
		return false
	}
	for i := 0; i < len(s); i++ {
		if s[i] < '0' || s[i] > '9' {
			return false
		}
	}
	return true
}

// refHost: host[:port] where host is a dotted domain (>= 2 components) or a
// bracketed IPv6 literal; or a single component with a mandatory port.
func refHost(s string) bool {
	if strings.HasPrefix(s, "[") {
		j := strings.IndexByte(s, ']')
		if j < 0 {
			return false
		}
		in := s[1:j]
		if in == "" {
			return false
		}
		for i := 0; i < len(in); i++ {
			c := in[i]
			if !(c == ':' || ('0' <= c && c <= '9') || ('a' <= c && c <= 'f') || ('A' <= c && c <= 'F')) {
				return false
			}
		}
		rest := s[j+1:]
		return rest == "" || (rest[0] == ':' && allDigits(rest[1:]))
	}
	name, port, hasPort := strings.Cut(s, ":")
	if hasPort && !allDigits(port) {
		return false
	}
	comps := strings.Split(name, ".")
	for _, c := range comps {
		if !refDomainComponent(c) {
			return false
		}
	}
	return hasPort || len(comps) >= 2
}

func isWordByte(c byte) bool { return c == '_' || isAlnum(c) }

// refTag: [A-Za-z0-9_][A-Za-z0-9_.-]{0,127}
func refTag(s string) bool {
	if len(s) == 0 || len(s) > 128 || !isWordByte(s[0]) {
		return false
	}
	for i := 1; i < len(s); i++ {
		if !isWordByte(s[i]) && s[i] != '.' && s[i] != '-' {
			return false
		}
	}
	return true
}

// refDigest: a registered algorithm with lower-case hex of the right length.
func refDigest(s string) bool {
	alg, hex, ok := strings.Cut(s, ":")
	if !ok {
		return false
	}
	want := map[string]int{"sha256": 64, "sha384": 96, "sha512": 128}[alg]
	if want == 0 || len(hex) != want {
		return false
	}
	for i := 0; i < len(hex); i++ {
		c := hex[i]
		if !(('0' <= c && c <= '9') || ('a' <= c && c <= 'f')) {
			return false
		}
	}
	return true
}
