package props

import (
	"context"
	"fmt"
	"runtime"
	"strings"
	"sync"
	"sync/atomic"
	"time"

	"cuelabs.dev/go/oci/ociregistry"
)

// orderGate forces a deterministic answer order between the two members of a
// unifier for every operation that the unifier always sends to both members
// (writes, tag reads, listings, writer methods): the "late" member does not
// start its k-th gated call before the "early" member has finished its k-th.
type orderGate struct {
	mu     sync.Mutex
	early  int    // gated calls completed by the early member
	broken string // set when the members' calls fell out of step (see wait)
}

func newOrderGate() *orderGate { return &orderGate{} }

// c15GatesOff is set after the first gate that had to give up: from then on no gate waits, so that a
// unifier which does not call its members in step is reported once instead of stalling every state.
var c15GatesOff atomic.Bool

// c15GateTimeout is how long the late member waits for the early member's matching call. Both calls
// are issued by the unifier for the same operation, normally microseconds apart.
const c15GateTimeout = 20 * time.Second

type gatedMember struct {
	ociregistry.Interface
	g     *orderGate
	late  bool
	calls atomic.Int64
}

func (m *gatedMember) enter() func() {
	k := int(m.calls.Add(1))
	if m.late {
		deadline := time.Now().Add(c15GateTimeout)
		spins := 0
		m.g.mu.Lock()
		for m.g.early < k && !c15GatesOff.Load() {
			if time.Now().After(deadline) {
				m.g.broken = fmt.Sprintf("member call %d of the late member has no matching call of the other member after %v: the unifier does not send this operation to both members in step", k, c15GateTimeout)
				c15GatesOff.Store(true)
				break
			}
			m.g.mu.Unlock()
			if spins++; spins < 200 {
				runtime.Gosched()
			} else {
				time.Sleep(50 * time.Microsecond)
			}
			m.g.mu.Lock()
		}
		m.g.mu.Unlock()
		return func() {}
	}
	return func() {
		m.g.mu.Lock()
		if k > m.g.early {
			m.g.early = k
		}
		m.g.mu.Unlock()
	}
}

func (m *gatedMember) PushManifest(ctx context.Context, repo, tag string, data []byte, mt string) (ociregistry.Descriptor, error) {
	defer m.enter()()
	return m.Interface.PushManifest(ctx, repo, tag, data, mt)
}
func (m *gatedMember) MountBlob(ctx context.Context, from, to string, d ociregistry.Digest) (ociregistry.Descriptor, error) {
	defer m.enter()()
	return m.Interface.MountBlob(ctx, from, to, d)
}
func (m *gatedMember) DeleteBlob(ctx context.Context, repo string, d ociregistry.Digest) error {
	defer m.enter()()
	return m.Interface.DeleteBlob(ctx, repo, d)
}
func (m *gatedMember) DeleteManifest(ctx context.Context, repo string, d ociregistry.Digest) error {
	defer m.enter()()
	return m.Interface.DeleteManifest(ctx, repo, d)
}
func (m *gatedMember) DeleteTag(ctx context.Context, repo string, t string) error {
	defer m.enter()()
	return m.Interface.DeleteTag(ctx, repo, t)
}
func (m *gatedMember) GetTag(ctx context.Context, repo, tag string) (ociregistry.BlobReader, error) {
	defer m.enter()()
	return m.Interface.GetTag(ctx, repo, tag)
}
func (m *gatedMember) ResolveTag(ctx context.Context, repo, tag string) (ociregistry.Descriptor, error) {
	defer m.enter()()
	return m.Interface.ResolveTag(ctx, repo, tag)
}
func (m *gatedMember) Repositories(ctx context.Context, after string) ociregistry.Seq[string] {
	defer m.enter()()
	return m.Interface.Repositories(ctx, after)
}
func (m *gatedMember) Tags(ctx context.Context, repo, after string) ociregistry.Seq[string] {
	defer m.enter()()
	return m.Interface.Tags(ctx, repo, after)
}
func (m *gatedMember) Referrers(ctx context.Context, repo string, d ociregistry.Digest, at string) ociregistry.Seq[ociregistry.Descriptor] {
	defer m.enter()()
	return m.Interface.Referrers(ctx, repo, d, at)
}
func (m *gatedMember) PushBlobChunked(ctx context.Context, repo string, chunk int) (ociregistry.BlobWriter, error) {
	defer m.enter()()
	w, err := m.Interface.PushBlobChunked(ctx, repo, chunk)
	if err != nil {
		return nil, err
	}
	return &gatedWriter{BlobWriter: w, m: m}, nil
}
func (m *gatedMember) PushBlobChunkedResume(ctx context.Context, repo, id string, off int64, chunk int) (ociregistry.BlobWriter, error) {
	defer m.enter()()
	w, err := m.Interface.PushBlobChunkedResume(ctx, repo, id, off, chunk)
	if err != nil {
		return nil, err
	}
	return &gatedWriter{BlobWriter: w, m: m}, nil
}

type gatedWriter struct {
	ociregistry.BlobWriter
	m *gatedMember
}

func (w *gatedWriter) Write(p []byte) (int, error) {
	defer w.m.enter()()
	return w.BlobWriter.Write(p)
}
func (w *gatedWriter) Close() error {
	defer w.m.enter()()
	return w.BlobWriter.Close()
}
func (w *gatedWriter) Cancel() error {
	defer w.m.enter()()
	return w.BlobWriter.Cancel()
}
func (w *gatedWriter) Commit(d ociregistry.Digest) (ociregistry.Descriptor, error) {
	defer w.m.enter()()
	return w.BlobWriter.Commit(d)
}

// ---- members whose upload IDs change as the upload progresses ----

// genIDMember wraps a registry so that the ID of an upload session carries a generation number that
// advances with every successful Write (the BlobWriter contract allows the ID to change after Write
// and Close; ociclient's does, being the Location of the last response). Resuming with an ID of an
// earlier generation fails, as it would against a registry that hands out one-time locations.
type genIDMember struct {
	ociregistry.Interface
	mu  *sync.Mutex
	gen map[string]int // base ID -> current generation
	pad string         // appended to every ID (upload IDs are opaque and may be long: a whole upstream URL with a state token)
}

func newGenIDMember(r ociregistry.Interface) *genIDMember {
	return &genIDMember{Interface: r, mu: new(sync.Mutex), gen: map[string]int{}}
}

type genIDWriter struct {
	ociregistry.BlobWriter
	m    *genIDMember
	base string
}

func (w *genIDWriter) ID() string {
	w.m.mu.Lock()
	defer w.m.mu.Unlock()
	return fmt.Sprintf("%s~%d%s", w.base, w.m.gen[w.base], w.m.pad)
}

func (w *genIDWriter) Write(p []byte) (int, error) {
	n, err := w.BlobWriter.Write(p)
	if err == nil && n > 0 {
		w.m.mu.Lock()
		w.m.gen[w.base]++
		w.m.mu.Unlock()
	}
	return n, err
}

func (m *genIDMember) PushBlobChunked(ctx context.Context, repo string, chunk int) (ociregistry.BlobWriter, error) {
	w, err := m.Interface.PushBlobChunked(ctx, repo, chunk)
	if err != nil {
		return nil, err
	}
	return &genIDWriter{BlobWriter: w, m: m, base: w.ID()}, nil
}

func (m *genIDMember) PushBlobChunkedResume(ctx context.Context, repo, id string, off int64, chunk int) (ociregistry.BlobWriter, error) {
	base, genText, ok := strings.Cut(id, "~")
	if ok && m.pad != "" {
		genText, ok = strings.CutSuffix(genText, m.pad)
	}
	if !ok {
		return nil, fmt.Errorf("%w: upload ID %q was not issued by this registry", ociregistry.ErrBlobUploadUnknown, id)
	}
	m.mu.Lock()
	cur := m.gen[base]
	m.mu.Unlock()
	if genText != fmt.Sprint(cur) {
		return nil, fmt.Errorf("%w: stale upload ID (generation %s, current %d)", ociregistry.ErrBlobUploadUnknown, genText, cur)
	}
	w, err := m.Interface.PushBlobChunkedResume(ctx, repo, base, off, chunk)
	if err != nil {
		return nil, err
	}
	return &genIDWriter{BlobWriter: w, m: m, base: base}, nil
}

// ---- members whose readers really end at Close ----

// strictMember wraps a registry so that every reader it hands out refuses to be read after Close
// (ocimem's readers keep working after Close, which hides a reader that was closed too early).
type strictMember struct{ ociregistry.Interface }

type strictReader struct {
	ociregistry.BlobReader
	closed bool
}

func (r *strictReader) Read(p []byte) (int, error) {
	if r.closed {
		return 0, fmt.Errorf("read on closed reader")
	}
	return r.BlobReader.Read(p)
}

func (r *strictReader) Close() error {
	r.closed = true
	return r.BlobReader.Close()
}

func strict(r ociregistry.BlobReader, err error) (ociregistry.BlobReader, error) {
	if err != nil || r == nil {
		return r, err
	}
	return &strictReader{BlobReader: r}, nil
}

func (m strictMember) GetBlob(ctx context.Context, repo string, d ociregistry.Digest) (ociregistry.BlobReader, error) {
	return strict(m.Interface.GetBlob(ctx, repo, d))
}
func (m strictMember) GetBlobRange(ctx context.Context, repo string, d ociregistry.Digest, o0, o1 int64) (ociregistry.BlobReader, error) {
	return strict(m.Interface.GetBlobRange(ctx, repo, d, o0, o1))
}
func (m strictMember) GetManifest(ctx context.Context, repo string, d ociregistry.Digest) (ociregistry.BlobReader, error) {
	return strict(m.Interface.GetManifest(ctx, repo, d))
}
func (m strictMember) GetTag(ctx context.Context, repo string, tag string) (ociregistry.BlobReader, error) {
	return strict(m.Interface.GetTag(ctx, repo, tag))
}
