// Command vrewrite generates a `go build -overlay` file that instruments
// packages of /repo for the schedule explorer: the "sync" import becomes the
// vsync shim, and go statements, channel operations, close, make(chan) and
// select statements become calls into vsync. /repo itself is never modified.
//
//	vrewrite -repo /repo/ociregistry -out /verif/.work/overlay pkg1 pkg2 ...
package main

import (
	"bytes"
	"encoding/json"
	"flag"
	"fmt"
	"go/ast"
	"go/format"
	"go/parser"
	"go/token"
	"os"
	"path/filepath"
	"reflect"
	"strconv"
	"strings"
)

type counts struct {
	Sync, Go, Send, Recv, Close, Make, Select, TimeNow, MapRange int
}

// mapRangePkgs lists the packages in which `for range <map>` is handed to the explorer.
var mapRangePkgs = map[string]bool{"ociauth": true}

// collectMapNames finds field and variable names declared with a map type (syntactic).
func collectMapNames(f *ast.File, out map[string]bool) {
	ast.Inspect(f, func(n ast.Node) bool {
		switch x := n.(type) {
		case *ast.Field:
			if _, ok := x.Type.(*ast.MapType); ok {
				for _, id := range x.Names {
					out[id.Name] = true
				}
			}
		case *ast.ValueSpec:
			if _, ok := x.Type.(*ast.MapType); ok {
				for _, id := range x.Names {
					out[id.Name] = true
				}
			}
		}
		return true
	})
}

type rewriter struct {
	fset     *token.FileSet
	n        int
	c        *counts
	used     bool // vsync referenced
	useTime  bool
	mapNames map[string]bool // struct fields / variables declared with a map type in the package
}

func vs(name string) ast.Expr {
	return &ast.SelectorExpr{X: ast.NewIdent("vsync"), Sel: ast.NewIdent(name)}
}

func call(fun ast.Expr, args ...ast.Expr) *ast.CallExpr {
	return &ast.CallExpr{Fun: fun, Args: args}
}

func isRecv(e ast.Expr) (ast.Expr, bool) {
	for {
		p, ok := e.(*ast.ParenExpr)
		if !ok {
			break
		}
		e = p.X
	}
	u, ok := e.(*ast.UnaryExpr)
	if ok && u.Op == token.ARROW {
		return u.X, true
	}
	return nil, false
}

// expr rewrites an expression bottom-up.
func (r *rewriter) expr(e ast.Expr) ast.Expr {
	if e == nil {
		return nil
	}
	r.children(e)
	switch x := e.(type) {
	case *ast.SelectorExpr:
		if id, ok := x.X.(*ast.Ident); ok && id.Name == "time" && x.Sel.Name == "Now" && r.useTime {
			r.c.TimeNow++
			r.used = true
			return vs("Now")
		}
	case *ast.UnaryExpr:
		if x.Op == token.ARROW {
			r.c.Recv++
			r.used = true
			return call(vs("Recv"), x.X)
		}
	case *ast.CallExpr:
		if id, ok := x.Fun.(*ast.Ident); ok {
			switch {
			case id.Name == "close" && len(x.Args) == 1:
				r.c.Close++
				r.used = true
				return call(vs("Close"), x.Args[0])
			case id.Name == "make" && len(x.Args) >= 1:
				if _, ok := x.Args[0].(*ast.ChanType); ok {
					r.c.Make++
					r.used = true
					return call(vs("Make"), x)
				}
			}
		}
	}
	return e
}

// children rewrites all expression/statement children of n in place via reflection.
func (r *rewriter) children(n ast.Node) {
	v := reflect.ValueOf(n)
	if v.Kind() == reflect.Ptr {
		v = v.Elem()
	}
	if v.Kind() != reflect.Struct {
		return
	}
	exprT := reflect.TypeOf((*ast.Expr)(nil)).Elem()
	stmtT := reflect.TypeOf((*ast.Stmt)(nil)).Elem()
	for i := 0; i < v.NumField(); i++ {
		f := v.Field(i)
		if !f.CanSet() {
			continue
		}
		switch {
		case f.Type() == exprT:
			if !f.IsNil() {
				f.Set(reflect.ValueOf(r.expr(f.Interface().(ast.Expr))))
			}
		case f.Type() == stmtT:
			if !f.IsNil() {
				f.Set(reflect.ValueOf(r.stmt(f.Interface().(ast.Stmt))))
			}
		case f.Kind() == reflect.Slice && f.Type().Elem() == exprT:
			for j := 0; j < f.Len(); j++ {
				el := f.Index(j)
				if !el.IsNil() {
					el.Set(reflect.ValueOf(r.expr(el.Interface().(ast.Expr))))
				}
			}
		case f.Kind() == reflect.Slice && f.Type().Elem() == stmtT:
			for j := 0; j < f.Len(); j++ {
				el := f.Index(j)
				if !el.IsNil() {
					el.Set(reflect.ValueOf(r.stmt(el.Interface().(ast.Stmt))))
				}
			}
		case f.Kind() == reflect.Ptr && !f.IsNil():
			if node, ok := f.Interface().(ast.Node); ok {
				switch node.(type) {
				case *ast.Ident, *ast.BasicLit, *ast.CommentGroup:
				default:
					r.children(node)
				}
			}
		case f.Kind() == reflect.Slice:
			for j := 0; j < f.Len(); j++ {
				el := f.Index(j)
				if el.Kind() == reflect.Ptr && !el.IsNil() {
					if node, ok := el.Interface().(ast.Node); ok {
						r.children(node)
					}
				}
			}
		}
	}
}

func (r *rewriter) stmt(s ast.Stmt) ast.Stmt {
	switch x := s.(type) {
	case *ast.SelectStmt:
		return r.selectStmt(x)
	case *ast.SendStmt:
		x.Chan, x.Value = r.expr(x.Chan), r.expr(x.Value)
		r.c.Send++
		r.used = true
		return &ast.ExprStmt{X: call(vs("Send"), x.Chan, x.Value)}
	case *ast.AssignStmt:
		if len(x.Lhs) == 2 && len(x.Rhs) == 1 {
			if ch, ok := isRecv(x.Rhs[0]); ok {
				for i := range x.Lhs {
					x.Lhs[i] = r.expr(x.Lhs[i])
				}
				r.c.Recv++
				r.used = true
				x.Rhs[0] = call(vs("Recv2"), r.expr(ch))
				return x
			}
		}
	case *ast.RangeStmt:
		name := ""
		switch rx := x.X.(type) {
		case *ast.SelectorExpr:
			name = rx.Sel.Name
		case *ast.Ident:
			name = rx.Name
		}
		if r.mapNames != nil && r.mapNames[name] && x.Tok == token.DEFINE {
			r.c.MapRange++
			r.used = true
			r.n++
			it := ast.NewIdent(fmt.Sprintf("__mi%d", r.n))
			var lhs, rhs []ast.Expr
			isBlank := func(e ast.Expr) bool {
				id, ok := e.(*ast.Ident)
				return ok && id.Name == "_"
			}
			// blank range variables (for _, v := range m) are simply not bound
			if x.Key != nil && !isBlank(x.Key) {
				lhs = append(lhs, x.Key)
				rhs = append(rhs, call(&ast.SelectorExpr{X: ast.NewIdent(it.Name), Sel: ast.NewIdent("Key")}))
			}
			if x.Value != nil && !isBlank(x.Value) {
				lhs = append(lhs, x.Value)
				rhs = append(rhs, call(&ast.SelectorExpr{X: ast.NewIdent(it.Name), Sel: ast.NewIdent("Val")}))
			}
			r.children(x.Body)
			body := x.Body
			if len(lhs) > 0 {
				assign := &ast.AssignStmt{Lhs: lhs, Tok: token.DEFINE, Rhs: rhs}
				var blank []ast.Expr
				for range lhs {
					blank = append(blank, ast.NewIdent("_"))
				}
				use := &ast.AssignStmt{Lhs: blank, Tok: token.ASSIGN, Rhs: append([]ast.Expr(nil), lhs...)}
				body = &ast.BlockStmt{List: append([]ast.Stmt{assign, use}, x.Body.List...)}
			}
			return &ast.ForStmt{
				Init: &ast.AssignStmt{Lhs: []ast.Expr{it}, Tok: token.DEFINE, Rhs: []ast.Expr{call(vs("MapIter"), r.expr(x.X))}},
				Cond: call(&ast.SelectorExpr{X: ast.NewIdent(it.Name), Sel: ast.NewIdent("Next")}),
				Body: body,
			}
		}
	case *ast.DeferStmt:
		if e, ok := r.expr(x.Call).(*ast.CallExpr); ok {
			x.Call = e
		}
		return x
	case *ast.GoStmt:
		r.c.Go++
		r.used = true
		c := x.Call
		c.Fun = r.expr(c.Fun)
		for i := range c.Args {
			c.Args[i] = r.expr(c.Args[i])
		}
		if fl, ok := c.Fun.(*ast.FuncLit); ok && len(c.Args) == 0 {
			return &ast.ExprStmt{X: call(vs("Go"), fl)}
		}
		r.n++
		var lhs []ast.Expr
		var args []ast.Expr
		for i := range c.Args {
			id := ast.NewIdent(fmt.Sprintf("__g%d_%d", r.n, i))
			lhs = append(lhs, id)
			args = append(args, ast.NewIdent(id.Name))
		}
		inner := &ast.CallExpr{Fun: c.Fun, Args: args, Ellipsis: c.Ellipsis}
		if c.Ellipsis != token.NoPos {
			inner.Ellipsis = 1
		}
		body := &ast.BlockStmt{List: []ast.Stmt{&ast.ExprStmt{X: inner}}}
		goCall := &ast.ExprStmt{X: call(vs("Go"), &ast.FuncLit{Type: &ast.FuncType{Params: &ast.FieldList{}}, Body: body})}
		if len(lhs) == 0 {
			return goCall
		}
		return &ast.BlockStmt{List: []ast.Stmt{
			&ast.AssignStmt{Lhs: lhs, Tok: token.DEFINE, Rhs: c.Args},
			goCall,
		}}
	}
	r.children(s)
	return s
}

func (r *rewriter) selectStmt(x *ast.SelectStmt) ast.Stmt {
	r.c.Select++
	r.used = true
	r.n++
	iv, vv, okv := fmt.Sprintf("__si%d", r.n), fmt.Sprintf("__sv%d", r.n), fmt.Sprintf("__sok%d", r.n)
	var cases []ast.Expr
	var clauses []ast.Stmt
	for idx, cl := range x.Body.List {
		cc := cl.(*ast.CommClause)
		var pre []ast.Stmt
		switch comm := cc.Comm.(type) {
		case nil:
			cases = append(cases, call(vs("DefaultCase")))
		case *ast.SendStmt:
			cases = append(cases, call(vs("SendCase"), r.expr(comm.Chan), r.expr(comm.Value)))
		case *ast.ExprStmt:
			ch, ok := isRecv(comm.X)
			if !ok {
				panic("vrewrite: unexpected select comm expression")
			}
			cases = append(cases, call(vs("RecvCase"), r.expr(ch)))
		case *ast.AssignStmt:
			ch, ok := isRecv(comm.Rhs[0])
			if !ok {
				panic("vrewrite: unexpected select comm assignment")
			}
			ch = r.expr(ch)
			cases = append(cases, call(vs("RecvCase"), ch))
			rhs := []ast.Expr{call(vs("As"), ch, ast.NewIdent(vv))}
			if len(comm.Lhs) == 2 {
				rhs = append(rhs, ast.NewIdent(okv))
			}
			pre = append(pre, &ast.AssignStmt{Lhs: comm.Lhs, Tok: comm.Tok, Rhs: rhs})
		default:
			panic("vrewrite: unexpected select comm")
		}
		for i := range cc.Body {
			cc.Body[i] = r.stmt(cc.Body[i])
		}
		clauses = append(clauses, &ast.CaseClause{
			List: []ast.Expr{&ast.BasicLit{Kind: token.INT, Value: strconv.Itoa(idx)}},
			Body: append(pre, cc.Body...),
		})
	}
	// keep the statement terminating when every original clause was
	clauses = append(clauses, &ast.CaseClause{Body: []ast.Stmt{&ast.ExprStmt{X: call(ast.NewIdent("panic"), &ast.BasicLit{Kind: token.STRING, Value: `"vsync: select index out of range"`})}}})
	return &ast.BlockStmt{List: []ast.Stmt{
		&ast.AssignStmt{Lhs: []ast.Expr{ast.NewIdent(iv), ast.NewIdent(vv), ast.NewIdent(okv)}, Tok: token.DEFINE,
			Rhs: []ast.Expr{call(vs("Select"), cases...)}},
		&ast.AssignStmt{Lhs: []ast.Expr{ast.NewIdent("_"), ast.NewIdent("_")}, Tok: token.ASSIGN, Rhs: []ast.Expr{ast.NewIdent(vv), ast.NewIdent(okv)}},
		&ast.SwitchStmt{Tag: ast.NewIdent(iv), Body: &ast.BlockStmt{List: clauses}},
	}}
}

func rewriteFile(fset *token.FileSet, path string, c *counts, mapNames map[string]bool) ([]byte, bool, error) {
	f, err := parser.ParseFile(fset, path, nil, parser.ParseComments)
	if err != nil {
		return nil, false, err
	}
	r := &rewriter{fset: fset, c: c, mapNames: mapNames, useTime: mapNames != nil}
	changed := false
	for _, imp := range f.Imports {
		if imp.Path.Value == `"sync"` {
			imp.Path.Value = `"verif/vsync"`
			if imp.Name == nil {
				imp.Name = ast.NewIdent("sync")
			}
			c.Sync++
			changed = true
		}
	}
	for _, d := range f.Decls {
		if fd, ok := d.(*ast.FuncDecl); ok && fd.Body != nil {
			for i := range fd.Body.List {
				fd.Body.List[i] = r.stmt(fd.Body.List[i])
			}
		}
		if gd, ok := d.(*ast.GenDecl); ok && gd.Tok == token.VAR {
			r.children(gd)
		}
	}
	if r.used {
		changed = true
		// add: import vsync "verif/vsync"
		spec := &ast.ImportSpec{Name: ast.NewIdent("vsync"), Path: &ast.BasicLit{Kind: token.STRING, Value: `"verif/vsync"`}}
		added := false
		for _, d := range f.Decls {
			if gd, ok := d.(*ast.GenDecl); ok && gd.Tok == token.IMPORT {
				gd.Specs = append(gd.Specs, spec)
				if !gd.Lparen.IsValid() {
					gd.Lparen = 1
				}
				added = true
				break
			}
		}
		if !added {
			f.Decls = append([]ast.Decl{&ast.GenDecl{Tok: token.IMPORT, Specs: []ast.Spec{spec}}}, f.Decls...)
		}
	}
	if !changed {
		return nil, false, nil
	}
	// comments are dropped: rewritten statements would otherwise be misplaced by the printer
	f.Comments = nil
	var buf bytes.Buffer
	if err := format.Node(&buf, fset, f); err != nil {
		return nil, false, err
	}
	return buf.Bytes(), true, nil
}

func main() {
	repo := flag.String("repo", "/repo/ociregistry", "module root")
	out := flag.String("out", "", "output directory")
	flag.Parse()
	if *out == "" || flag.NArg() == 0 {
		fmt.Fprintln(os.Stderr, "usage: vrewrite -repo DIR -out DIR pkg...")
		os.Exit(2)
	}
	os.RemoveAll(*out)
	os.MkdirAll(*out, 0o755)
	overlay := map[string]string{}
	report := map[string]*counts{}
	fset := token.NewFileSet()
	for _, pkg := range flag.Args() {
		dir := filepath.Join(*repo, pkg)
		ents, err := os.ReadDir(dir)
		if err != nil {
			fmt.Fprintln(os.Stderr, err)
			os.Exit(2)
		}
		c := &counts{}
		report[pkg] = c
		var mapNames map[string]bool
		if mapRangePkgs[pkg] {
			mapNames = map[string]bool{}
			for _, e := range ents {
				if strings.HasSuffix(e.Name(), ".go") && !strings.HasSuffix(e.Name(), "_test.go") {
					if pf, err := parser.ParseFile(token.NewFileSet(), filepath.Join(dir, e.Name()), nil, 0); err == nil {
						collectMapNames(pf, mapNames)
					}
				}
			}
		}
		for _, e := range ents {
			name := e.Name()
			if !strings.HasSuffix(name, ".go") || strings.HasSuffix(name, "_test.go") {
				continue
			}
			src := filepath.Join(dir, name)
			data, changed, err := rewriteFile(fset, src, c, mapNames)
			if err != nil {
				fmt.Fprintf(os.Stderr, "vrewrite: %s: %v\n", src, err)
				os.Exit(2)
			}
			if !changed {
				continue
			}
			dst := filepath.Join(*out, pkg, name)
			os.MkdirAll(filepath.Dir(dst), 0o755)
			if err := os.WriteFile(dst, data, 0o644); err != nil {
				fmt.Fprintln(os.Stderr, err)
				os.Exit(2)
			}
			overlay[src] = dst
		}
	}
	data, _ := json.MarshalIndent(map[string]any{"Replace": overlay}, "", " ")
	if err := os.WriteFile(filepath.Join(*out, "overlay.json"), data, 0o644); err != nil {
		fmt.Fprintln(os.Stderr, err)
		os.Exit(2)
	}
	rep, _ := json.MarshalIndent(report, "", " ")
	os.WriteFile(filepath.Join(*out, "report.json"), rep, 0o644)
	fmt.Printf("vrewrite: %d files rewritten: %s\n", len(overlay), strings.ReplaceAll(string(rep), "\n", ""))
}
