// Command vcheck runs one property check: vcheck <ID> [--tier quick|thorough]
// or replays a violation artefact: vcheck replay <file>.
package main

import (
	"encoding/json"
	"fmt"
	"os"
	"sort"

	"verif/vcore"

	_ "verif/props"
)

func main() {
	args := os.Args[1:]
	if len(args) == 0 {
		usage()
	}
	if args[0] == "list" {
		var ids []string
		for id := range vcore.Props {
			ids = append(ids, id)
		}
		sort.Strings(ids)
		for _, id := range ids {
			fmt.Println(id)
		}
		return
	}
	if args[0] == "replay" {
		if len(args) < 2 {
			usage()
		}
		data, err := os.ReadFile(args[1])
		if err != nil {
			fmt.Fprintln(os.Stderr, err)
			os.Exit(2)
		}
		var v vcore.Violation
		if err := json.Unmarshal(data, &v); err != nil {
			fmt.Fprintln(os.Stderr, err)
			os.Exit(2)
		}
		p := vcore.Props[v.Property]
		if p == nil || p.Replay == nil {
			fmt.Fprintln(os.Stderr, "no replay for", v.Property)
			os.Exit(2)
		}
		r := vcore.NewRun(p.ID, "quick", p.Level, p.Engine)
		r.Replaying = true
		p.Replay(r, v.Sub, v.Case)
		code := r.Finish(vcore.Coverage{})
		if code == 0 {
			fmt.Println("replay: no violation reproduced")
		}
		os.Exit(code)
	}
	id := args[0]
	tier := os.Getenv("VERIF_TIER")
	for i := 1; i < len(args); i++ {
		if args[i] == "--tier" && i+1 < len(args) {
			tier = args[i+1]
			i++
		}
	}
	if tier == "" {
		tier = "quick"
	}
	if tier != "quick" && tier != "thorough" {
		usage()
	}
	p := vcore.Props[id]
	if p == nil {
		fmt.Fprintln(os.Stderr, "unknown property", id)
		os.Exit(2)
	}
	r := vcore.NewRun(p.ID, tier, p.Level, p.Engine)
	cov := p.Check(r)
	os.Exit(r.Finish(cov))
}

func usage() {
	fmt.Fprintln(os.Stderr, "usage: vcheck <ID> [--tier quick|thorough] | vcheck replay <file> | vcheck list")
	os.Exit(2)
}
