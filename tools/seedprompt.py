#!/usr/bin/env python3
import json, sys
pid = sys.argv[1]
for l in open('/verif/properties.jsonl'):
    p = json.loads(l)
    if p['id'] == pid: break
wt = f"/tmp/wt-{pid}"
out = f"/tmp/seed-out/{pid}"
print(f"""You are helping test a verification effort for the Go library cue-labs/oci (an OCI distribution registry client/server/in-memory implementation). You have your own scratch git worktree of the repository at {wt} (Go modules under {wt}/ociregistry, {wt}/cmd/ocisrv, {wt}/ociregistry/internal/conformance). Work ONLY inside {wt} and {out}; never touch /repo or /verif or read anything under /verif.

The sandbox is offline. Before every go command run: export GOPROXY=off GOSUMDB=off GOTOOLCHAIN=local
The repository's own test suite is:  for m in cmd/ocisrv ociregistry ociregistry/internal/conformance; do (cd {wt}/$m && go test -vet=off -count=1 ./...); done   (about 20 s in total).

Here is a semantic property of the library that should hold:

  Title: {p['title']}
  Statement: {p['statement']}
  Quantified over: {p['quantifier']['text']}
  Code involved: {', '.join(p['anchors']['files'])}

Your task: produce TWO different, independent, realistic changes (bugs) to the library's non-test source code, each of which BREAKS this property while the code STILL COMPILES and the repository's existing test suite STILL PASSES completely. Each should look like a plausible mistake or well-meant refactor/optimisation a developer could make (an off-by-one, a hoisted buffer, a dropped check, a lock released early, a swapped comparison, a cache keyed too coarsely ...), not sabotage. Prefer changes that need something specific to manifest — a particular interleaving, a fault at a particular point, a multi-step sequence of operations, an unusual input, or two cooperating sites that each look fine alone — NOT ones that any ordinary use would expose at once. The two changes should touch different mechanisms.

For each change k in {{1,2}} deliver in {out}/m<k>/ :
  - patch.diff : output of `git -C {wt} diff` for that change alone (relative to the worktree's HEAD; it must apply with `git apply` at the repository root). Only non-test library source files may be changed.
  - a demonstration: a Go test file (say demo_test.go, put the intended location in notes.md, e.g. ociregistry/ocimem/demo_test.go) or a small main program that FAILS with the change applied and PASSES without it. It must be deterministic (if it needs a specific interleaving, force it with hooks available from outside the package such as wrapper registries, custom readers/writers, or channels — do not rely on timing or luck; if that is impossible say so in notes.md and make it as reliable as you can).
  - notes.md : what the change is, why it breaks the property, what it needs in order to manifest, the exact commands you ran and their results (suite passes with change; demo fails with change; demo passes without change).

Procedure: make change 1 in the worktree, run the full suite (must pass), run the demo (must fail), save the patch, then `git -C {wt} checkout -- .` (keep your demo file aside), run the demo on clean code (must pass); repeat for change 2. Leave the worktree clean (no modifications, no stray files) when you finish. Do not commit anything. Your final answer should be a short summary of the two changes and the paths of the deliverables.""")
