#!/bin/bash
# Runs every confirmed seeded change against the quick check of its property (and of the check named in meta.json
# when that differs), each in its own scratch worktree, 4 at a time. Writes /verif/seeded/MATRIX.md.
cd /verif
OUT=/verif/seeded/MATRIX.md
TMP=/tmp/seedmatrix.$$; mkdir -p $TMP
one() {
  d="$1"; sid=$(basename "$d"); id=${sid%%-*}
  chk=$(python3 -c "import json,re;m=json.load(open('$d/meta.json'));c=m.get('check_run','');x=re.findall(r' (C[0-9][0-9]) ',c+' ');print(x[0] if x else '$id')" 2>/dev/null || echo $id)
  res=$(TRYSEED_LINES=40 timeout 1500 /verif/tools/tryseed.sh "$d/patch.diff" "$chk" quick 2>&1)
  n=$(echo "$res" | grep -m1 '^violations:' | cut -d' ' -f2)
  fps=$(echo "$res" | grep 'fingerprint:' | sed 's/.*fingerprint: //' | head -3 | tr '\n' ';' | cut -c1-200)
  echo "| $sid | $chk | ${n:-?} | $fps |" > $TMP/$sid.row
}
export -f one; export TMP
# MATRIX_FILTER=<extended regex over seed ids>: run only those and merge their rows into the existing table
ls -d /verif/seeded/C*-m* | grep -E "/(${MATRIX_FILTER:-.*})\$" | xargs -P ${MATRIX_P:-4} -I{} bash -c 'one {}'
if [ -n "${MATRIX_FILTER:-}" ] && [ -f $OUT ]; then
  grep '^| C[0-9][0-9]-m' $OUT | while IFS= read -r row; do sid=$(echo "$row" | cut -d'|' -f2 | tr -d ' '); [ -f $TMP/$sid.row ] || echo "$row" > $TMP/$sid.row; done
fi
{ echo "# Seeded changes vs. checks (quick tier), $(date -u +%F)"; echo; echo "Each row: the seeded change applied in a scratch worktree, the check run against it (tools/tryseed.sh)."; echo; echo "| seed | check | violations reported | first fingerprints |"; echo "|---|---|---|---|"; cat $TMP/*.row | sort; } > $OUT
rm -rf $TMP
grep -c '| 0 |' $OUT | sed 's/^/undetected: /'
