#!/usr/bin/env python3
import json, sys, os, glob
pid = sys.argv[1]
for l in open('/verif/properties.jsonl'):
    p = json.loads(l)
    if p['id'] == pid: break
wt = f"/tmp/wt2-{pid}"
out = f"/tmp/seed-out2/{pid}"
avoid = []
for d in sorted(glob.glob(f"/verif/seeded/{pid}-m*")):
    try:
        m = json.load(open(d + "/meta.json"))
        t = m["needs_to_manifest"]
        for cut in [" — missed", " - missed", "; detected by", ". Not reached", "; deterministic", ": missed", ": deterministic", " (missed", "; missed", ": only visible", "; only visible", ": detected", "; detected"]:
            t = t.split(cut)[0]
        avoid.append(t)
    except Exception: pass
avoid_txt = "\n".join("   - " + a for a in avoid)
base = open('/verif/tools/seedprompt.py').read()
import subprocess
txt = subprocess.run(["python3", "/verif/tools/seedprompt.py", pid], capture_output=True, text=True).stdout
txt = txt.replace(f"/tmp/wt-{pid}", wt).replace(f"/tmp/seed-out/{pid}", out)
txt = txt.replace("The two changes should touch different mechanisms.", "The two changes should touch different mechanisms. Other people have already tried the following ideas for this property; do something DIFFERENT from all of them (a different function, a different mechanism, a different trigger):\n" + avoid_txt + "\nPrefer subtle changes in parts of the listed code that look least exercised by the repository's tests, and prefer triggers that involve state built up over several calls, unusual-but-legal inputs, boundary sizes, error paths, or concurrency.")
print(txt)
