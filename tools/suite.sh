#!/bin/bash
# usage: suite.sh <tree>  — runs the repository's own test suite in the given checkout (default /repo)
T="${1:-/repo}"
export GOPROXY=off GOSUMDB=off GOTOOLCHAIN=local
rc=0
for m in cmd/ocisrv ociregistry ociregistry/internal/conformance; do
  out=$(cd "$T/$m" && go test -vet=off -count=1 ./... 2>&1) || { rc=1; echo "$out" | grep -v '^ok\|no test files' | head -40; }
done
echo "suite rc=$rc"
exit $rc
