#!/bin/bash
# usage: tryseed.sh <patch.diff> <ID> [tier]  — apply a seeded change to /repo, run the check, always undo.
P="$1"; ID="$2"; TIER="${3:-quick}"
cd /repo || exit 2
if [ -n "$(git status --porcelain --untracked-files=no)" ]; then echo "/repo dirty, refusing" >&2; exit 2; fi
git apply "$P" || { echo "patch does not apply" >&2; exit 2; }
/verif/check.sh "$ID" "$TIER" > /tmp/tryseed.$$.log 2>&1; rc=$?
git -C /repo checkout -- .
grep -c '^VIOLATION' /tmp/tryseed.$$.log | sed "s/^/violations: /"
grep '^VIOLATION\|fingerprint\|^C[0-9][0-9] ' /tmp/tryseed.$$.log | head -12
rm -f /tmp/tryseed.$$.log
rm -rf /verif/replay/$ID
# restore evidence of the unchanged tree
git -C /verif checkout -- evidence/$ID.json 2>/dev/null
echo "exit=$rc"
