#!/bin/bash
# usage: tryseed.sh <patch.diff> <ID> [tier]
# Applies a seeded change in a SCRATCH worktree of /repo (never /repo itself), runs the check
# against that worktree (VERIF_REPO) writing evidence/replays to a scratch dir (VERIF_OUT),
# prints what was reported, removes everything.
P="$(realpath "$1")"; ID="$2"; TIER="${3:-quick}"
WT=/tmp/wt-try-$$; OUT=/tmp/out-try-$$
git -C /repo worktree add -q "$WT" HEAD || exit 2
mkdir -p "$OUT/evidence"; cp /verif/known_findings.txt "$OUT/"
cleanup() { git -C /repo worktree remove --force "$WT" 2>/dev/null; rm -rf "$OUT" "/verif/.work/alt/$(echo "$WT" | tr -c 'A-Za-z0-9' _)"; }
trap cleanup EXIT
git -C "$WT" apply "$P" || { echo "patch does not apply"; exit 2; }
VERIF_REPO="$WT" VERIF_OUT="$OUT" timeout ${TRYSEED_TIMEOUT:-3000} /verif/check.sh "$ID" "$TIER" > "$OUT/log" 2>&1; rc=$?
grep -c '^VIOLATION' "$OUT/log" | sed "s/^/violations: /"
grep '^VIOLATION\|fingerprint\|^C[0-9][0-9] \|HARNESS\|build failed' "$OUT/log" | grep -v "^KNOWN" | head -${TRYSEED_LINES:-12}
echo "exit=$rc"
