#!/bin/bash
# usage: try3.sh <ID> [checkID] — tries both round-8 changes of a property against its quick check
ID=$1; CHK=${2:-$1}
for k in 1 2; do
  echo "=== $ID m$k vs $CHK"
  TRYSEED_LINES=${TRYSEED_LINES:-4} timeout 1800 /verif/tools/tryseed.sh /tmp/seed-out8/$ID/m$k/patch.diff $CHK quick 2>&1 | tail -6
done
