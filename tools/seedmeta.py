#!/usr/bin/env python3
"""usage: seedmeta.py <seed id> <property> <detected: yes|no|partial> <check cmd> <needs text> [fingerprints...]"""
import json, sys, os
sid, prop, det, cmd, needs = sys.argv[1:6]
d = f"/verif/seeded/{sid}"
meta = {"seed": sid, "breaks_property": prop, "needs_to_manifest": needs,
        "confirmed": ["existing suite passes with the change (tools/confirmseed.sh in a scratch worktree)",
                      "demonstration fails with the change", "demonstration passes without the change"],
        "demo_location": open(d + "/demo_location.txt").read().strip() if os.path.exists(d + "/demo_location.txt") else None,
        "check_run": cmd, "detected": det, "fingerprints": sys.argv[6:]}
json.dump(meta, open(d + "/meta.json", "w"), indent=1)
print("wrote", d + "/meta.json")
