#!/usr/bin/env python3
"""Round-8 prompt: like seedprompt2 but with a regex-sanitised avoid list (nothing about which check caught what)."""
import json, sys, glob, re, subprocess
pid = sys.argv[1]
wt = f"/tmp/wt8-{pid}"
out = f"/tmp/seed-out8/{pid}"
avoid = []
cut = re.compile(r"\s*[;:.,(—-]\s*(missed|detected|NOT detected|not detected|patch rebased|only visible|deterministic|Not reached|a sequential content-integrity|needs a schedule|the root cause|this first|first broke|first stalled|needs an injected|which C[0-9][0-9]|reported by|C[0-9][0-9] )", re.S)
for d in sorted(glob.glob(f"/verif/seeded/{pid}-m*")):
    try:
        t = json.load(open(d + "/meta.json"))["needs_to_manifest"]
        t = cut.split(t)[0]
        t = re.sub(r"\s+", " ", t).strip()
        avoid.append(t)
    except Exception:
        pass
avoid_txt = "\n".join("   - " + a for a in avoid)
txt = subprocess.run(["python3", "/verif/tools/seedprompt.py", pid], capture_output=True, text=True).stdout
txt = txt.replace(f"/tmp/wt-{pid}", wt).replace(f"/tmp/seed-out/{pid}", out)
txt = txt.replace("The two changes should touch different mechanisms.", "The two changes should touch different mechanisms. Other people have already tried the following ideas for this property; do something DIFFERENT from all of them (a different function, a different mechanism, a different trigger):\n" + avoid_txt + "\nMake each change the kind of thing a maintainer could plausibly commit: an optimisation (caching, buffer reuse, a fast path, lazy evaluation), a refactoring that moves a check or reorders two steps, a 'robustness' tweak, a small feature. Prefer code that the repository's tests exercise least, and triggers that need state built over several calls, two objects alive at once, unusual-but-legal inputs, boundary sizes, error paths or a particular thread schedule.")
print(txt)
