#!/bin/bash
# usage: confirmseed.sh <srcdir with patch.diff + demo file> <demo file name> <dest path of demo relative to repo root> <seed id>
# Confirms in a scratch worktree: suite passes with the change; demo fails with it; demo passes without it.
# On success stores /verif/seeded/<seed id>/{patch.diff,<demo>,notes.md} and prints CONFIRMED.
SRC="$1"; DEMO="$2"; DEST="$3"; SID="$4"
export GOPROXY=off GOSUMDB=off GOTOOLCHAIN=local
WT=/tmp/wt-confirm-$$
git -C /repo worktree add -q "$WT" HEAD || exit 2
cleanup() { git -C /repo worktree remove --force "$WT"; }
trap cleanup EXIT
cd "$WT" || exit 2
git apply "$SRC/patch.diff" || { echo "NOT CONFIRMED: patch does not apply"; exit 1; }
/verif/tools/suite.sh "$WT" >/tmp/confirm.$$.log 2>&1 || { echo "NOT CONFIRMED: suite fails with change"; tail -20 /tmp/confirm.$$.log; exit 1; }
cp "$SRC/$DEMO" "$WT/$DEST"; for f in $EXTRA_FILES; do cp "$SRC/$f" "$WT/$(dirname "$DEST")/$f"; done
PKG=$(dirname "$DEST")
MOD=ociregistry; case "$DEST" in cmd/ocisrv/*) MOD=cmd/ocisrv;; ociregistry/internal/conformance/*) MOD=ociregistry/internal/conformance;; esac
REL=${PKG#$MOD}; REL=./${REL#/}
if (cd "$WT/$MOD" && go test -vet=off -count=1 $EXTRA_TEST_FLAGS "$REL" >/tmp/confirm.$$.log 2>&1); then echo "NOT CONFIRMED: demo passes with change"; exit 1; fi
grep -m3 -- '--- FAIL\|panic:' /tmp/confirm.$$.log
git -C "$WT" checkout -- . 
if ! (cd "$WT/$MOD" && go test -vet=off -count=1 $EXTRA_TEST_FLAGS "$REL" >/tmp/confirm.$$.log 2>&1); then echo "NOT CONFIRMED: demo fails without change"; tail -20 /tmp/confirm.$$.log; exit 1; fi
mkdir -p /verif/seeded/$SID
cp "$SRC/patch.diff" "$SRC/$DEMO" /verif/seeded/$SID/
[ -f "$SRC/notes.md" ] && cp "$SRC/notes.md" /verif/seeded/$SID/
echo "$DEST" > /verif/seeded/$SID/demo_location.txt
rm -f /tmp/confirm.$$.log
echo "CONFIRMED $SID"
