#!/usr/bin/env python3
"""Generates /verif/MANIFEST.json from the table below (kept in one place so the manifest is always valid)."""
import json, os
ROOT = os.path.dirname(os.path.dirname(os.path.abspath(__file__)))
ALL = ["C%02d" % i for i in range(1, 21)]
# id -> (category, engine, technique, level text, level note, design ref)
CHECKS = {
 "C01": ("model_checking", "E2-state",
         "exhaustive enumeration of contents x push paths x stacks x read/range entry points, exhaustive single and pairwise response corruptions, and a history search with a byte/digest sweep",
         "(a) every byte string of length 0..3 (quick) / 0..4 (thorough) over {NUL,'a',0xC3} plus lengths 5, 8191-8193 (thorough 16385, 131072/3) through {PushBlob, chunked whole and split at every position, raw single POST, mount, manifest by tag/digest, raw PUT by digest} on {mem, client->server->mem, +ocidebug, +Select, +Sub, ociunify seq/conc, two hops}: every complete read returns exactly the pushed bytes, an independently recomputed digest equal to the requested one and the right size; EVERY (offset0, offset1) pair returns the exact slice while describing the whole blob; (b) every inconsistent descriptor kind is rejected and leaves nothing retrievable; (c) BFS over histories with pushes, deletes, mounts and upload-session reuse, sweep compares everything ever committed; (d) every single and every PAIR of response corruptions (flip each byte, truncate to each length, append, replace, Content-Length +-1/0/absent/garbage, Docker-Content-Digest other/malformed/absent/sha512, 206) for GetBlob/GetManifest/GetTag: delivered bytes inconsistent with the reader's descriptor must never end in a clean EOF.",
         "Sentence 3 applies to complete reads (range readers are unverified by design). Empty/inverted ranges over HTTP are C03's known finding.",
         "DESIGN.md 3 C01"),
 "C02": ("model_checking", "E2-state",
         "explicit-state BFS over operation histories of the real ocimem.Registry with a reference-model oracle and full read sweep in every state",
         "Breadth-first search over all histories (alphabet ~110 operations: pushes with good/bad descriptors, 9 manifest kinds tagged/untagged, mounts, deletes, one chunked upload session with write/resume/commit/cancel, invalid names) to depth 2 (quick) / 4 with caps (thorough) from the empty registry and from 6 seeded non-initial states, in both configurations, plus a closed mini-universe explored to FIXPOINT (every reachable state, any history length). A state is the canonical reflective dump of the real registry object graph plus upload handles; every transition is a real call compared with a three-valued reference model, then ~260 read/resolve/list queries are compared with the model. All traces are implementation traces.",
         "Bounded universe (2+1 repositories, 3 blobs, 9 manifests, 2 tags, <=3-byte uploads). Codes compared only where interface.go documents them; content-free repositories may be unknown or empty; silent cases are three-valued.",
         "DESIGN.md 3 C02"),
 "C03": ("model_checking", "E2-state",
         "lock-step differential BFS over operation histories: the real ocimem directly vs the real client->server(->client->server)->ocimem stack, plus a recording backend and a loopback binding run",
         "Every history (alphabet ~90 operations: pushes with good/bad descriptors, 6-7 manifest kinds incl. one above the client's 128 KiB threshold, tagged/untagged, mounts, deletes, a chunked upload with write/resume/commit/cancel) over repository and tag names that contain the routing words (a/blobs/uploads, x/tags/list, manifests, b/referrers; tags list, blobs, uploads) is applied to ocimem directly and to the stack, under server option sets {none, OmitDigest, OmitLink, MaxListPageSize, DisableSinglePostUpload, all}, client page sizes {1,2,1000}, ocidebug on both sides, two proxy hops, and a tiny registry chunk minimum; depth 1-2 from empty and 3 seeded states (quick), 2-3 (thorough). After every transition: same success/failure, same OCI code (status class for HEAD-based resolves), same descriptor; a full read sweep through the stack equals the direct sweep; readers held open simultaneously return the same bytes; the two backends are observably equal. Recording backend: 17 methods x names x sha256/384/512 digests x media types (incl. parameters) and x every standard error: the backend sees exactly the caller's arguments. The in-process transport is bound to net/http by replaying histories over a real loopback server with identical logs required.",
         "Deterministic upload IDs via a harness shim. Excluded/tolerated (documented in DESIGN.md 5): mis-positioned resumes (C04), retry of a failed Commit (protocol limitation), PushBlob with a wrong size (cannot be put on the wire), MountBlob size 0, inverted ranges. Known finding: empty range over HTTP.",
         "DESIGN.md 3 C03"),
 "C04": ("model_checking", "E2-state",
         "exhaustive enumeration of chunked-writer scripts executed on the real stacks (direct, HTTP one and two hops, unified) with a concatenation oracle",
         "Every composition of an n-byte content (n <= 5 quick / 6 thorough, incl. zero-length writes, a NUL byte) into Write calls x chunk-size hints {-1,0,1,2,3,5,9} x EVERY subset of write boundaries closed-and-resumed x resume modes {explicit Size(), -1, alternating} x one bad resume (offset +1, -1, 0) tried first at each boundary (must be refused with RANGE_INVALID/416, a second attempt on the same writer too, and the upload must be unaltered) x right / wrong commit digest, on ocimem, client->server->ocimem with registry minimum chunk 1,2,3 (tiny-data flush logic) and the real 8192, two proxy hops, ociunify and ociunify over HTTP; plus write sizes {0,1,8191,8192,8193,16384} around the real minimum. Oracle: every accepted Write returns (len,nil), Size() equals bytes accepted, GetBlob after Commit returns exactly the concatenation, wrong digest stores nothing under either digest.",
         "Contents <= 6 bytes (plus the 8 KiB family). Excluded as stated: resume with -1 after exactly one byte. In-process transport bound to net/http by C03's loopback run.",
         "DESIGN.md 3 C04"),
 "C05": ("model_checking", "E2-state",
         "exhaustive enumeration of listing configurations executed on the real stacks with a sorted-strictly-after model and a counting consumer",
         "Item sets of size 0..5 (quick) / 0..7 (thorough) around every multiple of the page sizes, items with URL metacharacters, prefix siblings (p, p-x/a, p.d/x, p/a, pp/x) x client page size {1,2,3,1000} x server MaxListPageSize {none,2} x Link header on/off x stacks {recording backend direct, real ocimem direct and over HTTP, 1 hop, 2 hops, ocidebug on both sides, Select on either side of the hop, Sub on either side, ociunify over disjoint/overlapping/equal members direct and over HTTP} x start points (absent, every element, between, beyond, URL metacharacters) x consumer declining after k x backend failing after j, for repositories, tags and referrers. Oracle: delivered items are exactly the model sequence (sorted, strictly after the start, filtered/stripped per wrapper, duplicate-free union), or a prefix followed by an error where an error can legitimately arise; never silently short; zero consumer calls after it declined or after an error; paging terminates within a request budget.",
         "Bounded item universes; recording backends honour the Lister contract. In-process transport bound to net/http by C03's loopback run.",
         "DESIGN.md 3 C05"),
 "C08": ("model_checking", "E1-sched",
         "stateless schedule exploration of the real ocimem (and ociclient->ociserver->ocimem) under a cooperative scheduler, twice: linearizability oracle, and -race build with a futex parker invisible to the race detector",
         "12 directed harnesses (tag retarget vs GetTag, commit vs write, two resumers, delete vs mount vs read, tagged push vs delete of a referenced blob and two pushers on one tag in immutable-tags mode, listing vs push/delete, concurrent first reads of a chunk-committed blob, cancel vs commit vs read; three of them also through ociclient->in-process transport->ociserver) explored over ALL schedules, plus 169 generated 2-thread programs (thorough: + 3x1 and 2+1 programs, ~5k) with <= 2 preemptions. Every complete schedule: brute-force linearizability of the recorded invocation/response history against the C02 reference model including the final read sweep. The same harness bodies are re-explored in a -race build where threads hand off through raw futex calls on plain words in //go:norace code, so the detector sees exactly the program's own synchronisation on EVERY explored schedule (not on whatever a stress run happens to hit); a detected race is reported with the two access sites.",
         "<= 3 controlled threads (the property names up to 16); scheduling points at lock operations and thread start/exit (sound under data-race freedom, which the race mode checks on the same schedules); weak-memory effects beyond happens-before race detection are not modelled.",
         "DESIGN.md 2.2, 3 C08"),
 "C09": ("exploration", "E4-enum",
         "bounded exhaustive enumeration: all subsets and all ordered pairs of a small scope universe against a bitmask set model",
         "All 2^8 (quick) / 2^13 (thorough) subsets of a universe of resource scopes chosen one per branch of scope.go (known/unknown actions incl. one sorting between pull and push, catalog sentinel, empty repository name, opaque word, unknown type, registry:catalog:pull), built by every construction route (NewScope sorted/permuted/duplicated, ParseScope of plain, permuted, comma-joined text, Union results, zero value, unlimited) and all ordered pairs for Union/Contains/Equal; Iter order, early stop, Len, Holds for every universe element, print/parse round trip, receiver text preservation. Exhaustive over the universe.",
         "Strings outside the universe are not explored; the model is a bitmask over the universe.",
         "DESIGN.md 3 C09"),
 "C12": ("exploration", "E4-enum",
         "bounded exhaustive enumeration of policies x call sequences on the real wrappers with a recording backend and a directly-called twin",
         "AccessChecker: all 512 allow/deny assignments to the 9 (repository, access kind) slots x every sequence of <= 2 (thorough <= 3) of the 21 invocations (18 methods, three mount shapes incl. from==to, writer use after PushBlobChunked*) on ONE wrapper instance; Select: all allow subsets; listings: all backend subsets x allowed subsets of 5 names x start points x stop-after-k x backend-error-after-j. Oracle: rejected => zero backend calls and one of the policy's own errors (Select: NAME_UNKNOWN / DENIED for write); allowed => backend call log and result identical to calling a twin backend directly; no consumer calls after stop/error. The space is finite and fully enumerated.",
         "Access kind per method taken from the AccessKind documentation; listing items judged only where read and list decisions agree.",
         "DESIGN.md 3 C12"),
 "C13": ("model_checking", "E2-state",
         "exhaustive enumeration of hostile names/scopes against a recording backend plus BFS over histories through Sub(ocimem) checked against the restricted-registry model",
         "(a) confinement: 2 prefixes x 17 methods x 18 caller names (dot, dot-dot, escaping, leading/trailing/double slash, upper case; both mount arguments) x 11 context scopes (incl. unlimited and names shaped like the prefix): a backend argument that is a valid repository name must be exactly prefix/n, and the backend context scope must equal the model rewrite; (b) listings: all subsets of a sibling universe (foo, foo-x/a, foo/a, ..., fooey/x) x start points x stop-after-k x backend-error-after-j; (c) equivalence: BFS to depth 2 (quick) / 3 (thorough) over histories through Sub(ocimem, prefix) incl. hostile names, compared with the reference registry model by full read sweep in every state, and the backend's sibling repositories must stay bit-identical.",
         "A backend argument that is not a syntactically valid repository name is taken to reach nothing (backends validate names). RequestInfo scopes are not part of the claim.",
         "DESIGN.md 3 C13"),
 "C14": ("model_checking", "E2-state",
         "explicit-state BFS over histories through the real wrappers / immutable-tags ocimem with history monitors on every transition",
         "BFS over operation histories (pushes of equal and different content, image/index manifests incl. nested and mistyped references, same bytes under two media types, mounts, deletes, one chunked upload) through ocifilter.Immutable(ocimem) (depth 3 quick / 4 thorough) and through ocimem in immutable-tags mode (depth 2 / 3, also compared with the reference model), from empty and 4 seeded states, plus closed mini-universes to FIXPOINT. Monitors: first observed (tag -> digest, bytes) must hold in every later state via ResolveTag and GetTag; through Immutable nothing ever retrievable is lost and no delete succeeds; in immutable-tags mode the model-computed transitive closure of every tag stays retrievable. ReadOnly: in every reached backend state every mutating call through the wrapper fails UNSUPPORTED, the backend dump is bit-identical afterwards and all reads equal direct reads.",
         "Sequential histories only here; the concurrent part of the immutable-tags claim is explored by C08's scheduler harnesses. Bounded universe as C02.",
         "DESIGN.md 3 C14"),
 "C15": ("model_checking", "E2-state",
         "exhaustive enumeration of member-state pairs against a union model plus BFS over write histories through the real unifier with reference-model and member-equality oracles",
         "Read side: all 1156 ordered pairs of 34 member states (equal, disjoint, overlapping, conflicting tag, repository known to one member only, empty) x every read/resolve/list query x both read policies: digest content readable iff either member has it, tag resolves iff members agree or one has it and FAILS on disagreement, listings are the sorted duplicate-free union, sequential == concurrent. Write side: BFS (depth 2 quick / 3 thorough, from empty and seeded states) over histories through ociunify.New(ocimem, ocimem) under both policies and with each member forced to answer first (deterministic gate), with the C02 reference model as oracle and, after every transition, both members observably equal AND bit-identical up to upload IDs; plus runs where one member fails its k-th mutating call (k<=3): the unifier must not report success.",
         "Same media type for content present in both members. The free-running goroutines inside ociunify are ordered by the gate wrappers for operations sent to both members; the schedule space of concurrent reads is C16's.",
         "DESIGN.md 3 C15"),
 "C16": ("model_checking", "E1-sched",
         "stateless exhaustive schedule exploration (all interleavings, no preemption bound) of the real ociunify code under a cooperative scheduler installed by build overlay",
         "144 scenarios (5 read entry points x 4x4 member scripts {success, failure, block until own context cancelled then succeed/fail} x canceller thread on/off x member reader Close error on/off) x EVERY schedule of the caller, the two sender goroutines that ociunify itself spawns, and the canceller: go statements, channel send/receive/close and every ready select case are choice points owned by the explorer. After every complete schedule: result is a successful member's answer or an error only if both failed or the caller had cancelled; every reader opened by the unchosen member is closed exactly once; the chosen member's context is live until the returned reader's Close and cancelled afterwards (immediately for resolve-style reads); no thread remains blocked (scheduler-level deadlock detection); determinism self-check before exploring.",
         "Scheduling points are synchronisation operations (sound for data-race-free code); unlock/close/spawn are not followed by an extra point, the next synchronisation operation of the same thread is. Members are harness fakes; scenarios where a blocking member is never cancelled are excluded (a hang there is outside the property).",
         "DESIGN.md 2.2, 3 C16"),
 "C17": ("exploration", "E4-enum",
         "bounded exhaustive enumeration of all strings up to length 6 over an 11-symbol alphabet plus grammar-directed component products, against hand-written recognisers",
         "Every string of length <= 5 (quick) / <= 6 (thorough) over {a,A,0,.,:,/,@,-,_,[,]} and the product of 17 hosts x 22 repositories x 12 tags x 13 digests (valid and invalid, boundary lengths 128/129, 255/256): no panic from any exported ociref/ociregistry validity function or parser; parse ok => print equals input and each part valid and within its limit; Parse agrees with ParseRelative; every independently valid partition with a host is recovered; predicates equal the independent recogniser on every string incl. empty; routing agreement through ociserver with a recording backend (accepted as repository/tag/digest iff the predicate holds; backend never sees an invalid argument).",
         "Unstructured inputs are bounded by length and alphabet; longer inputs only via the component sets. Oracle recognisers are hand-written from the grammar in reference.go's comments / the distribution spec.",
         "DESIGN.md 3 C17"),
 "C20": ("exploration", "E4-enum",
         "bounded exhaustive enumeration of set/unset assignments (all 2^18 in thorough) run against the real Funcs via reflection",
         "Every method x every set/unset assignment of the 18 function fields (thorough: all 262144; quick: none/all/singles/pairs and their complements) x with/without constructor, plus nil receiver; each call checked for no panic, exact delegation of arguments and results, constructor error or ErrUnsupported, single-item error iterators. The space is finite and enumerated completely in thorough.",
         "Argument/result fidelity is checked with one distinctive value per parameter type; fields discovered by reflection.",
         "DESIGN.md 3 C20"),
}
PENDING_REASON = "check not built yet in this session (planned, see DESIGN.md section 3); not claimed until its check passes on the unchanged tree"
checks = []
for pid in ALL:
    if pid not in CHECKS: continue
    cat, eng, tech, text, note, ref = CHECKS[pid]
    checks.append({
        "property_id": pid,
        "quick_cmd": "/verif/check.sh %s quick" % pid,
        "thorough_cmd": "/verif/check.sh %s thorough" % pid,
        "evidence_file": "/verif/evidence/%s.json" % pid,
        "replay_cmd_template": "/verif/check.sh replay {path}",
        "engine": eng,
        "level_claimed": {"category": cat, "text": text, "design_ref": ref},
        "level_note": note,
        "technique": tech,
    })
m = {
 "version": 1,
 "setup_cmd": "/verif/check.sh setup",
 "hooks": {
   "guard": "verif",
   "enable": "no hooks live in /repo: every check builds /repo's working tree through `go build -tags verif -overlay <generated>`; the overlay (sync/go/chan/select/time/rand rewrites) is regenerated from the current sources by /verif/harness/vrewrite on each run",
   "baseline_off_cmd": "for m in cmd/ocisrv ociregistry ociregistry/internal/conformance; do (cd /repo/$m && go test -vet=off -count=1 ./...) || exit 1; done",
   "source_commits": [],
   "add_only": True,
 },
 "engines": [
   {"name": "E1-sched", "path": "/verif/harness/vsched", "kind_free_text": "stateless DFS over thread schedules of the real code under a cooperative scheduler (sync/chan/select/go rewritten by overlay), preemption-bounded or unbounded with state pruning; futex parker variant under -race", "serves_properties": []},
   {"name": "E2-state", "path": "/verif/harness/vstate", "kind_free_text": "explicit-state BFS over operation histories of the real stacks; state = canonical reflective dump; reference-model / differential oracles on every transition", "serves_properties": []},
   {"name": "E3-env", "path": "/verif/harness/venv", "kind_free_text": "deviation-bounded enumeration of peer answers (scripted RoundTripper / request lines)", "serves_properties": []},
   {"name": "E4-enum", "path": "/verif/harness/props", "kind_free_text": "bounded exhaustive input enumeration against independent reference implementations", "serves_properties": [p for p in CHECKS if CHECKS[p][1]=="E4-enum"]},
 ],
 "checks": checks,
 "not_applicable": [{"property_id": p, "reason": PENDING_REASON} for p in ALL if p not in CHECKS],
 "notes": "All checks: /verif/check.sh <ID> <tier>. Exit 0 = held on everything explored; 1 = VIOLATION line; 2 = harness infrastructure failure. Known findings: /verif/known_findings.txt.",
}
for e in m["engines"]:
    e["serves_properties"] = [p for p in CHECKS if CHECKS[p][1]==e["name"]]
json.dump(m, open(os.path.join(ROOT, "MANIFEST.json"), "w"), indent=1)
print("wrote MANIFEST.json with", len(checks), "checks")
